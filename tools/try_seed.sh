#!/bin/bash
# tools/try_seed.sh <patch.diff> <check ids...>  : apply the patch to a scratch worktree of /repo HEAD, run the quick
# tier of the named checks against it (VERIF_REPO), print caught/missed, remove the worktree.
patch="$1"; shift
wt=$(mktemp -d /tmp/seedwt.XXXXXX); rmdir "$wt"
git -C /repo worktree add -q --detach "$wt" HEAD || exit 3
if ! git -C "$wt" apply "$patch" 2>/dev/null; then
  if ! git -C "$wt" apply -3 "$patch" 2>/dev/null; then echo "PATCH DOES NOT APPLY: $patch"; git -C /repo worktree remove --force "$wt"; exit 3; fi
fi
for id in "$@"; do
  out=$(cd /verif && VERIF_REPO="$wt" VERIF_EVIDENCE_DIR="$wt/.evidence" VERIF_REPLAY_DIR="$wt/.replays" ./vcheck "$id" ${TIER:-quick} 2>&1); rc=$?
  nviol=$(echo "$out" | grep -c "^VIOLATION")
  if [ $rc -eq 1 ] && [ $nviol -gt 0 ]; then echo "CAUGHT  $id ($nviol): $(echo "$out" | grep -m2 "mechanism:" | tr '\n' ' ')"; 
  else echo "MISSED  $id rc=$rc: $(echo "$out" | tail -1)"; fi
done
git -C /repo worktree remove --force "$wt"
