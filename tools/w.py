#!/usr/bin/env python3
"""tools/w.py Cnn [substr] : print one compact witness per mechanism class"""
import json,glob,sys
pid=sys.argv[1]; sub=sys.argv[2] if len(sys.argv)>2 else ''
seen=set()
for f in sorted(glob.glob(f'/verif/replays/{pid}/*.json')):
    d=json.load(open(f)); m=d['mechanism']
    cls='|'.join(m.split('|')[2:3])
    if sub and sub not in m: continue
    if cls in seen and not sub: continue
    seen.add(cls)
    print('##', m, '::', d['what'][:300]); print('   ', json.dumps(d['witness'])[:int(sys.argv[3]) if len(sys.argv)>3 else 500])
