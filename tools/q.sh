#!/bin/bash
# compact run: tools/q.sh C07 [tier] -> mechanisms + summary line only
cd /verif; ./vcheck "$1" "${2:-quick}" 2>&1 | grep -E "^  mechanism:|^$1 |^INCONCLUSIVE|Traceback|^KNOWN-FINDING" | sed -E 's/^(KNOWN-FINDING: property=[A-Z0-9]+ ).{0,60}.*\[mech=/\1[mech=/' | cut -c1-260 | head -${LINES_MAX:-25}
