#!/usr/bin/env python3
"""Regenerates /verif/MANIFEST.json from the table below (run after adding a check)."""
import json, os, subprocess

ROOT = os.path.dirname(os.path.dirname(os.path.abspath(__file__)))

T = {
 "C01": ("exploration", "self-consistency + near-miss equivalence oracle + independent reference per format",
         "runtime monitoring: API-boundary recorder over generated (hasher, password, settings, context) cases; oracle = documented-equivalence model per format and independent reference implementations; thorough tier adds online monitors hooked into the hashers while the repository's own test-suite runs",
         "3 C01"),
 "C02": ("exploration", "differential monitor against independent reference implementations, both directions, default and pure-python backends",
         "runtime differential monitoring against independent spec implementations (hashlib spec loops, textbook DES/MD4, bcrypt wheel, OS crypt, Django)",
         "3 C02"),
 "C03": ("exploration", "every ordered pair of selectable backends compared in fresh subprocesses; availability decided independently of passlib; isolation ledger over switching sequences",
         "runtime monitoring of backend selection in fresh processes: cross-backend digest equality, host-capability oracle outside passlib, ledger invariant over set_backend sequences",
         "3 C03"),
 "C04": ("exploration", "executable policy model of CryptContext compared with the real context over generated configurations and hash corpora; verify_and_update fixed-point histories",
         "runtime monitoring against an executable reference model of the context policy (model-based oracle over generated configurations, category-visit histories and verify_and_update histories); thorough tier adds online monitors on CryptContext.hash / verify_and_update while the repository's own test-suite runs",
         "3 C04"),
 "C05": ("exploration", "byte-level truncation model: extension / alteration probes against produced hashes, exception-class oracle at the size boundaries",
         "runtime monitoring with a byte-level truncation model and exception-class oracle over boundary-length inputs",
         "3 C05"),
 "C06": ("exploration", "exhaustive enumeration of the random source for small sizes (bijection onto the declared space) + statistical monitors with negligible false-alarm probability",
         "runtime monitoring with a controlled random source: exhaustive source enumeration (bijection check) and chi-square / bit-correlation monitors on generated values",
         "3 C06"),
 "C07": ("exploration", "round-trip monitor: from_string/to_string/parsehash vs settings known to the generator and an independent field splitter; reference-grammar strings",
         "runtime round-trip monitoring of parse/render against generator-known settings and reference-made strings; thorough tier adds a re-render monitor on every hash the repository's own test-suite makes",
         "3 C07"),
 "C08": ("exploration", "complete single-edit neighbourhoods of seed hashes: exception-class oracle and acceptance oracle with documented-equivalence classifier",
         "runtime monitoring over exhaustive one-edit mutation neighbourhoods with exception-class and acceptance oracles",
         "3 C08"),
 "C09": ("exploration", "window-arithmetic model of using() + isolation fingerprint of every ancestor/registry object after every step of using() chains",
         "runtime monitoring of using() chains: executable window model + isolation invariant (fingerprint at every step)",
         "3 C09"),
 "C10": ("fault_enumeration", "fault injected at every statement of the build phase of load()/update() (sys.monitoring failpoints) and every invalid-change kind x position; fingerprint before == after",
         "runtime fault injection (source-free sys.monitoring failpoints, raising hashers, invalid changes) with before/after fingerprint oracle; export/import round-trip monitor; load/update histories on one object compared with a context built afresh from its export",
         "3 C10"),
 "C11": ("exploration", "differential monitor of the pure-python primitives against textbook/standard-library references, exhaustive where small",
         "runtime differential monitoring of DES/Blowfish/MD4/scrypt/HMAC/PBKDF/SASLprep against independent references",
         "3 C11"),
 "C12": ("exploration", "exhaustive 1-/2-byte groups and sampled/complete 3-byte groups per engine against stdlib base64 under alphabet translation",
         "runtime exhaustive differential monitoring of the codecs against stdlib base64/base32",
         "3 C12"),
 "C13": ("exploration", "differential against an 8-line RFC 4226/6238 reference over generated keys/algorithms/digits/periods/times",
         "runtime differential monitoring against an independent RFC 4226/6238 reference",
         "3 C13"),
 "C14": ("exploration", "executable model of match(); exhaustive small parameter cube; online history monitor (accepted counters strictly increase)",
         "runtime monitoring against an executable model + online trace monitor over match() histories",
         "3 C14"),
 "C15": ("exploration", "serialisation round-trip monitor over hostile labels/issuers, three formats; corrupted-source refusal oracle",
         "runtime round-trip monitoring of TOTP serialisations with field-equality and token-equality oracles",
         "3 C15"),
 "C16": ("exploration", "bounded-exhaustive operation histories + long random histories against an ordered-map model; exported text parsed by an independent reader after every operation",
         "runtime monitoring of operation histories against an executable file model, invariant checked after every operation by an independent reader",
         "3 C16"),
 "C17": ("exploration", "every shipped context x every scheme x generated hashes: attribution and verification through the context",
         "runtime monitoring over all exported contexts x schemes x categories (exhaustive over the finite product) with generated hashes; import-order monitor over fresh interpreters",
         "3 C17"),
 "C18": ("exploration", "disable/enable histories against a small model; dummy-verify observed by a call probe",
         "runtime monitoring of disable/enable histories against an executable model with call probes",
         "3 C18"),
 "C19": ("exploration", "deterministic line-level scheduler (sys.monitoring) enumerating all single-preemption interleavings of 2 threads over the lazy-initialisation code, plus free-running stress with yield injection",
         "runtime schedule exploration: deterministic sys.monitoring LINE scheduler with preemption bounding + stress with injected yields; per-thread result oracle",
         "3 C19"),
 "C20": ("exploration", "cross-verification libpass <-> passlib in both directions + identify truth table + needs_update oracle",
         "runtime differential monitoring between the two APIs and the independent references",
         "3 C20"),
}

NOTE = ("Held means: held on the executions listed in the evidence file (generated inputs, enumerated sub-spaces, forced "
        "schedules, injected faults), nothing beyond. Trusted base: CPython 3.12, hashlib/OpenSSL, libxcrypt, the bcrypt wheel, "
        "Django, vlib/refimpl (self-validated on published vectors every run).")


def main():
    checks, na = [], []
    for pid, (level, text, technique, ref) in sorted(T.items()):
        if os.path.exists(os.path.join(ROOT, "checks", pid.lower() + ".py")):
            checks.append(dict(property_id=pid, quick_cmd=f"./vcheck {pid} quick", thorough_cmd=f"./vcheck {pid} thorough",
                               evidence_file=f"/verif/evidence/{pid}.json", replay_cmd_template="./vcheck --replay {path}",
                               engine="vlib", level_claimed=dict(category=level, text=text, design_ref="DESIGN.md section " + ref),
                               level_note=NOTE, technique=technique))
        else:
            na.append(dict(property_id=pid, reason="check not built yet (work in progress); the property is decidable by runtime monitoring, see DESIGN.md section " + ref))
    try:
        hooks = subprocess.run(["git", "-C", "/repo", "log", "--format=%h %s", "--grep", "^hook:"], capture_output=True, text=True).stdout.split("\n")
        hooks = [h.split()[0] for h in hooks if h.strip()]
    except Exception:
        hooks = []
    m = dict(version=1,
             setup_cmd="./vcheck --setup",
             hooks=dict(guard="PASSLIB_VERIF", enable="no in-repo hooks are needed: all observation points are reached from outside (public API, sys.monitoring); ./vcheck sets PASSLIB_VERIF=1 for forward compatibility",
                        baseline_off_cmd="cd /repo && /venv/bin/python -m pytest -ra -q -p no:cacheprovider --timeout=900 --continue-on-collection-errors",
                        source_commits=hooks, add_only=True),
             engines=[dict(name="vlib", path="/verif/vlib", serves_properties=[c["property_id"] for c in checks],
                           kind_free_text="python runtime-monitoring harness: generators, independent references, executable models, sys.monitoring scheduler/failpoints, evidence writer")],
             checks=checks, not_applicable=na,
             notes="Runtime monitoring only. Compiler sanitizers/valgrind/race detectors do not apply (pure-Python repository), see DESIGN.md section 0.")
    with open(os.path.join(ROOT, "MANIFEST.json"), "w") as fh:
        json.dump(m, fh, indent=1)
        fh.write("\n")
    import sys
    sys.path.insert(0, os.path.join(ROOT, ".deps"))
    try:
        import jsonschema
        jsonschema.validate(m, json.load(open("/root/.vp/MANIFEST.schema.json")))
        print("MANIFEST valid;", len(checks), "checks,", len(na), "not yet claimed")
    except ImportError:
        print("written (jsonschema not available for validation)")


if __name__ == "__main__":
    main()
