#!/usr/bin/env python3
"""Run the repository's pinned test suite (guard off) and compare with /root/.vp/BASELINE.json.
usage: tools/baseline.py [repo_dir]   exit 0 iff every stable-pass test of the baseline still passes."""
import json, os, subprocess, sys, tempfile, xml.etree.ElementTree as ET

repo = sys.argv[1] if len(sys.argv) > 1 else "/repo"
base = json.load(open("/root/.vp/BASELINE.json"))
out = tempfile.mktemp(suffix=".junit.xml")
env = {k: v for k, v in os.environ.items() if k != "PASSLIB_VERIF"}
env["PYTHONPATH"] = repo
cmd = ["/venv/bin/python", "-m", "pytest", "-q", "-p", "no:cacheprovider", "--timeout=900",
       "--continue-on-collection-errors", "-x" if False else "-ra", f"--junitxml={out}", "-n", "8"]
# -n may be unavailable; fall back
r = subprocess.run(cmd, cwd=repo, env=env, capture_output=True, text=True)
if "unrecognized arguments: -n" in r.stderr or "no such option" in r.stderr.lower():
    cmd = cmd[:-2]
    r = subprocess.run(cmd, cwd=repo, env=env, capture_output=True, text=True)
passed = set()
for tc in ET.parse(out).getroot().iter("testcase"):
    if not any(ch.tag in ("failure", "error", "skipped") for ch in tc):
        passed.add(f"{tc.get('classname')}::{tc.get('name')}")
os.unlink(out)
stable = set(base["stable_pass"])
missing = sorted(stable - passed)
print(f"passed={len(passed)} stable_baseline={len(stable)} missing={len(missing)} new_passes={len(passed - stable)}")
for m in missing[:40]:
    print("  MISSING", m)
print(r.stdout.strip().splitlines()[-1] if r.stdout.strip() else r.stderr[-500:])
sys.exit(1 if missing else 0)
