#!/bin/bash
# tools/confirm_seed.sh <dir with patch.diff demo.py notes.md> <seed-id> <property>
# Confirms in a scratch worktree of /repo HEAD: demo passes on the clean tree, patch applies, demo fails with it,
# the pinned baseline still passes; then stores the seed under /verif/seeded/<seed-id>/ with meta.json.
src="$1"; sid="$2"; prop="$3"
wt=$(mktemp -d /tmp/confwt.XXXXXX); rmdir "$wt"
git -C /repo worktree add -q --detach "$wt" HEAD || exit 3
cleanup() { git -C /repo worktree remove --force "$wt" 2>/dev/null; }
trap cleanup EXIT
run_demo() { (cd "$wt" && PYTHONPATH="$wt" PYTHONWARNINGS=ignore timeout 600 /venv/bin/python "$src/demo.py" >/dev/null 2>&1); echo $?; }
clean_rc=$(run_demo)
if ! git -C "$wt" apply "$src/patch.diff" 2>/dev/null; then git -C "$wt" apply -3 "$src/patch.diff" 2>/dev/null || { echo "$sid: PATCH DOES NOT APPLY"; exit 1; }; fi
mut_rc=$(run_demo)
base=$(cd /verif && ./tools/baseline.py "$wt" 2>&1 | head -1)
missing=$(echo "$base" | sed -n 's/.*missing=\([0-9]*\).*/\1/p')
echo "$sid: demo clean rc=$clean_rc mutant rc=$mut_rc baseline: $base"
if [ "$clean_rc" = 0 ] && [ "$mut_rc" != 0 ] && [ "$missing" = 0 ]; then
  d=/verif/seeded/$sid; mkdir -p "$d"
  git -C "$wt" diff > "$d/patch.diff"
  cp "$src/demo.py" "$d/demo.py"; [ -f "$src/notes.md" ] && cp "$src/notes.md" "$d/notes.md"
  python3 - "$d" "$sid" "$prop" "$base" "$(git -C /repo rev-parse --short HEAD)" <<'PY'
import json, sys, os
d, sid, prop, base, head = sys.argv[1:6]
notes = open(os.path.join(d, "notes.md")).read() if os.path.exists(os.path.join(d, "notes.md")) else ""
json.dump(dict(seed=sid, breaks_property=prop, origin="independent sub-agent given only the property text",
               repo_head_when_confirmed=head,
               confirmed=dict(demo_on_clean_tree="exit 0", demo_with_patch="non-zero exit", pinned_suite=base.strip()),
               needs_to_manifest=notes[:1500],
               ran=["PYTHONPATH=<scratch worktree> /venv/bin/python demo.py (clean, then patched)", "/verif/tools/baseline.py <scratch worktree>"],
               caught_by=[]), open(os.path.join(d, "meta.json"), "w"), indent=1)
PY
  echo "$sid: KEPT"
else
  echo "$sid: REJECTED"
fi
