#!/usr/bin/env python3
"""tools/seed_matrix.py [seed-id ...] : run the quick tier of each seed's own check against a scratch worktree with the
seed applied (VERIF_REPO), record caught/missed and the reported mechanisms in seeded/<id>/meta.json, print a table.
Options: --all-checks also runs every other check (which ones else notice the seed); -j N parallel seeds."""
import json, os, subprocess, sys, tempfile, concurrent.futures as cf

ROOT = "/verif"
args = [a for a in sys.argv[1:] if not a.startswith("-")]
jobs = 4
for i, a in enumerate(sys.argv):
    if a == "-j":
        jobs = int(sys.argv[i + 1]); args = [x for x in args if x != sys.argv[i + 1]]
tier = "thorough" if "--thorough" in sys.argv else "quick"
seeds = args or sorted(os.listdir(os.path.join(ROOT, "seeded")))


def one(sid):
    d = os.path.join(ROOT, "seeded", sid)
    meta = json.load(open(os.path.join(d, "meta.json")))
    if meta.get("status") == "superseded":
        return sid, meta["breaks_property"], "superseded", []
    prop = meta["breaks_property"]
    wt = tempfile.mkdtemp(prefix="seedwt."); os.rmdir(wt)
    subprocess.run(["git", "-C", "/repo", "worktree", "add", "-q", "--detach", wt, "HEAD"], check=True)
    try:
        r = subprocess.run(["git", "-C", wt, "apply", os.path.join(d, "patch.diff")], capture_output=True, text=True)
        if r.returncode:
            r = subprocess.run(["git", "-C", wt, "apply", "-3", os.path.join(d, "patch.diff")], capture_output=True, text=True)
            if r.returncode:
                return sid, prop, "patch-does-not-apply", []
        env = dict(os.environ, VERIF_REPO=wt, VERIF_EVIDENCE_DIR=os.path.join(wt, ".evidence"), VERIF_REPLAY_DIR=os.path.join(wt, ".replays"))
        out = subprocess.run(["./vcheck", prop, tier], cwd=ROOT, env=env, capture_output=True, text=True)
        mechs = [l.split("mechanism:", 1)[1].strip() for l in out.stdout.splitlines() if "mechanism:" in l]
        status = "caught" if out.returncode == 1 and mechs else ("inconclusive" if out.returncode == 2 else "missed")
        return sid, prop, status, mechs
    finally:
        subprocess.run(["git", "-C", "/repo", "worktree", "remove", "--force", wt])


with cf.ThreadPoolExecutor(jobs) as ex:
    results = list(ex.map(one, seeds))
head = subprocess.run(["git", "-C", "/repo", "rev-parse", "--short", "HEAD"], capture_output=True, text=True).stdout.strip()
for sid, prop, status, mechs in results:
    p = os.path.join(ROOT, "seeded", sid, "meta.json")
    meta = json.load(open(p))
    if status != "superseded":
        meta["caught_by"] = [dict(check=prop, tier=tier, repo_head=head, status=status, mechanisms=mechs[:6])]
        json.dump(meta, open(p, "w"), indent=1)
    print(f"{sid:10s} {prop} {status:12s} {'; '.join(mechs[:2])[:150]}")
print("caught", sum(1 for r in results if r[2] == "caught"), "of", len(results))
