"""C03 - all backends of a hash agree and every advertised backend works.

Every scenario runs in a fresh subprocess (backend selection is global state):
 * availability: what the host supports is decided *outside passlib* (direct calls of legacycrypt.crypt,
   bcrypt.hashpw, hashlib.scrypt on published vectors); passlib must report those backends available, select them
   and hash with them;
 * agreement: the same (password, settings) under every selectable backend must give the same string, which must
   also equal the independent reference; non-UTF-8 passwords must fall back transparently under os_crypt;
 * fresh first call: the very first hash()/verify() of a process (lazy backend stub) must equal the reference;
 * isolation ledger: over set_backend() sequences across hashers, the outputs of every other hasher never change.
"""
import itertools

from vlib import hashers as H
from vlib.refimpl import formats as F
from vlib.run import main

RULE = ("case = (hasher, backend A, backend B, password, settings) digest comparison, or one step of a set_backend "
        "sequence with the full output ledger; distinct = distinct (hasher, backend pair, password class/length, cost, "
        "salt size) tuples and distinct switching sequences")

MULTI = ["md5_crypt", "sha1_crypt", "sha256_crypt", "sha512_crypt", "des_crypt", "bsdi_crypt", "bcrypt", "bcrypt_sha256",
         "scrypt", "ldap_md5_crypt", "ldap_sha1_crypt", "ldap_sha256_crypt", "ldap_sha512_crypt", "ldap_des_crypt",
         "ldap_bsdi_crypt", "ldap_bcrypt", "django_bcrypt", "django_bcrypt_sha256"]


def host_supports():
    """what the host demonstrably supports, established without passlib"""
    out = {}
    try:
        import legacycrypt
        vec = {"des_crypt": ("ab", "abJnggxhB/yWI"), "bsdi_crypt": ("_J9..rasm", "_J9..rasmEedsvB6g8/6"),
               "md5_crypt": ("$1$abc$", "$1$abc$BXBqpb9BZcZhXLgbee.0s/"),
               "sha1_crypt": ("$sha1$100$abc$", "$sha1$100$abc$VhWzFZzI0K9bvL2ZhzNlpZuhynjB"),
               "sha256_crypt": ("$5$rounds=1000$abc$", "$5$rounds=1000$abc$chB2229SaEAMndXolPyqp1RFge2UaeCAJVGEAvqr4M3"),
               "sha512_crypt": ("$6$abc$", "$6$abc$rvqzMBuMVukmply9mZJpW0wJMdDfgUKLDrSNxf9l66h/ytQiKNAdqHSj5YPJpxWJpVjRXibQXRddCl9xYHQnd0"),
               "bcrypt": ("$2b$04$abcdefghijklmnopqrstuu", "$2b$04$abcdefghijklmnopqrstuughE8Ev8uGFaUgY2cNEySvxngrb/Jzdm")}
        for n, (cfg, want) in vec.items():
            out[(n, "os_crypt")] = legacycrypt.crypt("password", cfg) == want
    except Exception:
        pass
    try:
        import bcrypt
        out[("bcrypt", "bcrypt")] = bcrypt.hashpw(b"password", b"$2b$04$abcdefghijklmnopqrstuu") == b"$2b$04$abcdefghijklmnopqrstuughE8Ev8uGFaUgY2cNEySvxngrb/Jzdm"
    except Exception:
        out[("bcrypt", "bcrypt")] = False
    try:
        import hashlib
        out[("scrypt", "stdlib")] = hashlib.scrypt(b"", salt=b"", n=16, r=1, p=1, dklen=8).hex() == "77d6576238657b20"
    except Exception:
        out[("scrypt", "stdlib")] = False
    try:
        import scrypt  # noqa: F401
        out[("scrypt", "scrypt")] = True
    except Exception:
        out[("scrypt", "scrypt")] = False
    for n in ("md5_crypt", "sha1_crypt", "sha256_crypt", "sha512_crypt", "des_crypt", "bsdi_crypt", "bcrypt", "scrypt"):
        out[(n, "builtin")] = True   # pure python, always (bcrypt: when PASSLIB_BUILTIN_BCRYPT is set)
    return out


def owner_name(name):
    """the hasher whose support table applies (wrappers / subclasses share the algorithm)"""
    h = H.get(name)
    b = H.base_name(h)
    return {"bcrypt_sha256": "bcrypt", "django_bcrypt_sha256": "bcrypt"}.get(b, b)


def inputs(rng, name, tier, n):
    h = H.get(name)
    out = []
    slist = H.settings_list(h, rng, tier, n_random=2)
    b = H.base_name(h)
    if b.startswith("bcrypt") or b == "django_bcrypt_sha256":
        slist = [s for s in slist if s.get("rounds", 4) <= 4]
    if b == "scrypt":
        slist = [s for s in slist if s.get("rounds", 1) <= 5]
    if b.endswith("bsdi_crypt"):
        slist = [s for s in slist if s.get("rounds", 1) <= 70]
    rng.shuffle(slist)
    if b == "bcrypt":
        # every ident x password class (the $2$ emulation repeats the password to 72 bytes: multi-byte characters
        # cut at the 72-byte boundary matter under os_crypt)
        for ident in ("2", "2a", "2y", "2b"):
            for pw in ("\u20acab", "\U0001f511key", H.pw_text(rng, 5, (2, 3)), H.pw_bytes(rng, rng.choice([7, 23, 71, 72, 73, 100])),
                       H.pw_bytes(rng, 9, "high"), "", b"", "a" + "é" * 40, "ab" + "\u20ac" * 30):
                out.append((dict(ident=ident, rounds=4, salt=H.gen_salt(h, rng, 22)), pw, "text" if isinstance(pw, str) else "binary"))
    if "os_crypt" in getattr(h, "backends", ()) and slist:
        # lengths the host's crypt() may refuse (libxcrypt: 512 bytes and more): the other backends take them, so must this one
        lowest = min(s_.get("rounds") or 0 for s_ in slist)
        per_ident = {}
        for s_ in slist:
            if (s_.get("rounds") or 0) == lowest:
                per_ident.setdefault(s_.get("ident"), s_)
        for cheap in per_ident.values():
            for ln in (511, 512, 513, 1000, 4096):
                out.append((cheap, H.pw_bytes(rng, ln, "ascii"), "long-ascii"))
            out.append((cheap, H.pw_text(rng, 300), "long-text"))
            # long runs of multi-byte characters only (no ASCII byte anywhere near the cut)
            for txt in ("é" * 300, "日" * 200, "\U0001f600" * 140, "a" * 70 + "é" * 300, "a" * 71 + "中" * 200):
                out.append((cheap, txt, "long-multibyte-run"))
    for k, st in enumerate(slist[:n]):
        ln = H.C02_LENGTHS[(k * 5 + len(name)) % len(H.C02_LENGTHS)]
        kind = ("ascii", "binary", "high", "text")[k % 4]
        pw = H.pw_text(rng, max(1, ln // 3)) if kind == "text" else H.pw_bytes(rng, ln, kind)
        out.append((st, pw, kind))
    return out


def agree(run, name):
    """availability + agreement for one hasher, in this (fresh) process"""
    import passlib.hash  # noqa
    from checks.c02 import norm_settings, ref_for
    rng = run.rng("agree:" + name)
    h = H.get(name)
    sup = host_supports()
    own = owner_name(name)
    avail = []
    for b in h.backends:
        expected = sup.get((own, b))
        try:
            has = h.has_backend(b)
        except Exception as e:
            run.violation(f"C03|{name}|{b}|has_backend|{type(e).__name__}",
                          f"{name}: has_backend({b!r}) raised {type(e).__name__}: {str(e)[:100]}", dict(name=name, backend=b),
                          repro=f"import passlib.hash as H\nprint(H.{name}.has_backend({b!r}))")
            continue
        run.case((name, "availability", b, has), dict(hasher=name, backend=b, host_supports=expected, has_backend=has))
        if expected and not has:
            run.violation(f"C03|{name}|{b}|reported-unavailable",
                          f"{name}: backend {b!r} is demonstrably supported by the host but has_backend() is False", dict(name=name, backend=b))
        if expected is False and has and b != "builtin":
            run.violation(f"C03|{name}|{b}|reported-available-but-absent", f"{name}: backend {b!r} reported available but host lacks it", dict(name=name, backend=b))
        if has:
            avail.append(b)
    run.count(f"backends:{name}", len(avail))
    ins = inputs(rng, name, run.tier, 10 if run.tier == "quick" else 40)
    bname = H.base_name(h)
    for st, pw, kind in ins:
        secret = pw.encode() if isinstance(pw, str) else pw
        results = {}
        try:
            H.apply(h, st)
        except (ValueError, TypeError):
            run.count("using_refused")
            continue
        for b in avail:
            try:
                h.set_backend(b)
                if h.get_backend() != b:
                    run.violation(f"C03|{name}|{b}|select|wrong-backend", f"{name}: set_backend({b!r}) left get_backend()={h.get_backend()!r}", dict(name=name))
                first = H.apply(h, st).hash(pw)
                # availability queries are read-only: they must not disturb the selected backend
                for other in list(h.backends) + ["default", "any"]:
                    try:
                        h.has_backend(other)
                    except ValueError:
                        pass
                results[b] = H.apply(h, st).hash(pw)
                run.count("has_backend_queries", len(h.backends))
                if results[b] != first or h.get_backend() != b:
                    run.violation(f"C03|{own}|has_backend-changes-state", f"{name}: has_backend() queries changed the result/selection under backend {b!r}",
                                  dict(name=name, backend=b, before=first, after=results[b], get_backend=h.get_backend()))
            except Exception as e:
                if (b == "os_crypt" and own == "bcrypt" and not H.is_utf8(secret) and isinstance(e, ValueError)):
                    run.violation(f"C03|{own}|os_crypt|non-utf8-refused",
                                  f"{name}: os_crypt backend refuses a non-UTF-8 password instead of falling back ({type(e).__name__})",
                                  dict(name=name, password=pw, settings=st))
                    continue
                run.violation(f"C03|{name}|{b}|select|{type(e).__name__}",
                              f"{name}: backend {b!r} selectable but hashing failed: {type(e).__name__}: {str(e)[:100]}",
                              dict(name=name, backend=b, settings=st, password=pw),
                              repro=f"import passlib.hash as H\nH.{name}.set_backend({b!r})\nprint(H.{name}.using(**{st!r}).hash({pw!r}))")
        try:
            want = ref_for(name, secret, norm_settings(name, st), {})
        except (F.NotCovered, ValueError, UnicodeError):
            want = None
        for a, b in itertools.permutations(results, 2):
            run.case((name, a, b, len(secret), kind, st.get("rounds"), len(st.get("salt", ""))),
                     dict(hasher=name, pair=[a, b], password=pw, settings=st, hash=results[a]))
            run.count(f"pair:{name}")
            if results[a] != results[b] and a < b:
                run.violation(f"C03|{name}|{a}!={b}|digest-mismatch", f"{name}: backends {a!r} and {b!r} disagree",
                              dict(name=name, settings=st, password=pw, results=results),
                              repro=f"import passlib.hash as H\nh=H.{name}\nfor b in {list(results)!r}:\n h.set_backend(b); print(b, h.using(**{st!r}).hash({pw!r}))")
        if want is not None:
            for b, got in results.items():
                if got != want:
                    run.violation(f"C03|{name}|{b}|differs-from-reference", f"{name}: backend {b!r} differs from the independent reference",
                                  dict(name=name, settings=st, password=pw, got=got, want=want))
                run.count("vs_reference")
        if kind in ("binary", "high") and not H.is_utf8(secret) and "os_crypt" in results:
            run.count("non_utf8_under_os_crypt")
        # verify through each backend of a hash made by another
        for a, b in itertools.permutations(results, 2):
            try:
                h.set_backend(b)
                ok = h.verify(pw, results[a])
            except Exception as e:
                run.violation(f"C03|{name}|{b}|verify|{type(e).__name__}", f"{name}: verify under {b!r} raised {e}", dict(name=name))
                continue
            if ok is not True:
                run.violation(f"C03|{name}|{a}->{b}|cross-verify-false", f"{name}: hash made under {a!r} does not verify under {b!r}", dict(name=name, hash=results[a], password=pw))


def fresh(run, name, mode):
    """first call of the process goes through the lazy backend stub; no set_backend() beforehand"""
    from checks.c02 import norm_settings, ref_for
    rng = run.rng("fresh:" + name + mode)
    h = H.get(name)
    bname = H.base_name(h)
    st = {}
    if "rounds" in h.setting_kwds:
        st["rounds"] = H.rounds_values(h, "quick")[0]
    st["salt"] = H.gen_salt(h, rng)
    pw = H.pw_bytes(rng, rng.choice([0, 5, 9, 20])).decode() if mode.endswith("text") else H.pw_bytes(rng, rng.choice([0, 3, 9, 33]))
    secret = pw.encode() if isinstance(pw, str) else pw
    want = ref_for(name, secret, norm_settings(name, st), {})
    w = dict(name=name, mode=mode, settings=st, password=pw, reference=want)
    rp = (f"import passlib.hash as H\n" + (f"print(H.{name}.verify({pw!r}, {want!r}))" if mode.startswith("verify") else f"print(H.{name}.using(**{st!r}).hash({pw!r}), 'expected', {want!r})"))
    try:
        if mode.startswith("verify"):
            got = h.verify(pw, want)
            ok = got is True
        else:
            got = H.apply(h, st).hash(pw)
            ok = got == want
    except Exception as e:
        run.violation(f"C03|{name}|first-call|{mode.split('-')[0]}|{type(e).__name__}", f"{name}: first {mode} of a fresh process raised {type(e).__name__}: {str(e)[:100]}", w, rp)
        return
    run.case((name, "first-call", mode), dict(w, got=got))
    run.count("first_calls")
    if not ok:
        run.violation(f"C03|{name}|first-call|{mode.split('-')[0]}|wrong-result",
                      f"{name}: first {mode} of a fresh process (lazy backend stub) gives {got!r}, expected {want!r}", w, rp)
    # and the second call agrees with the first
    got2 = h.verify(pw, want) if mode.startswith("verify") else H.apply(h, st).hash(pw)
    if got2 != got:
        run.violation(f"C03|{name}|first-call|{mode.split('-')[0]}|differs-from-second", f"{name}: first and second call disagree", dict(w, first=got, second=got2), rp)


TRUE_WORDS = ("1", "true", "TRUE", "True", "t", "yes", "Yes", "y", "on", "ON", "enable", "enabled", "Enabled")
FALSE_WORDS = ("", "0", "false", "FALSE", "False", "f", "no", "No", "n", "off", "OFF", "disable", "disabled", "Disabled")


def switching(run, name, order_seed, builtin_word):
    """a fresh process, NO availability query beforehand: ordinary first use (default backend), then set_backend() of every
    backend name in a generated order - including ones that are not available (must raise MissingBackendError and leave
    the hasher exactly as it was) - and after every step every ident / variant still hashes to the reference value.
    PASSLIB_BUILTIN_BCRYPT carries `builtin_word` (any documented boolean spelling)."""
    import passlib.exc as X
    from checks.c02 import norm_settings, ref_for
    rng = run.rng(f"switching:{name}:{order_seed}:{builtin_word}")
    h = H.get(name)
    own = owner_name(name)
    sup = host_supports()
    if own == "bcrypt":
        sup[(own, "builtin")] = builtin_word in TRUE_WORDS
    variants = []
    base = {}
    if "rounds" in h.setting_kwds:
        base["rounds"] = H.rounds_values(h, "quick")[0]
    idents = list(getattr(getattr(h, "wrapped", h), "ident_values", None) or [None]) if H.base_name(h) == "bcrypt" else [None]
    for ident in idents:
        st = dict(base, salt=H.gen_salt(h, rng))
        if ident:
            st["ident"] = ident.strip("$")
        try:
            H.apply(h, st)
        except (ValueError, TypeError):
            continue            # (an ident the hasher recognises but does not produce, e.g. 2x)
        for pw in (H.pw_bytes(rng, 9).decode(), H.pw_text(rng, 4), H.pw_bytes(rng, 73).decode()):
            try:
                want = ref_for(name, pw.encode(), norm_settings(name, st), {})
            except Exception:
                want = None
            variants.append((st, pw, want))
    w0 = dict(name=name, builtin_env=builtin_word)

    def probe(step, log):
        """every variant against the reference; returns False after the first violation"""
        for st, pw, want in variants:
            try:
                got = H.apply(h, st).hash(pw)
            except Exception as e:
                run.violation(f"C03|{own}|switching|{step}|hash-raises|{type(e).__name__}", f"{name}: after {log} hashing ({st.get('ident', 'default')} variant) raised {type(e).__name__}: {str(e)[:100]}",
                              dict(w0, history=log, settings=st, password=pw))
                return False
            run.count("switching_probes")
            if want is not None and got != want:
                run.violation(f"C03|{own}|switching|{step}|digest-differs-from-reference", f"{name}: after {log} the {st.get('ident', 'default')} variant hashes to {got!r}, reference {want!r}",
                              dict(w0, history=log, settings=st, password=pw))
                return False
        return True
    log = ["first-use"]
    if not probe("first-use", log):
        return
    try:
        current = h.get_backend()
    except Exception as e:
        run.violation(f"C03|{own}|switching|get_backend|{type(e).__name__}", f"{name}: get_backend() after first use raised {e}", w0)
        return
    order = list(h.backends) + ["no_such_backend"]
    rng.shuffle(order)
    order = order + [order[0]]
    for b in order:
        expected = sup.get((own, b), False)
        try:
            h.set_backend(b)
            outcome = "selected"
        except X.MissingBackendError:
            outcome = "missing"
        except ValueError as e:
            outcome = "unknown-name" if b == "no_such_backend" else f"ValueError:{str(e)[:60]}"
        except Exception as e:
            outcome = f"{type(e).__name__}:{str(e)[:60]}"
        log.append(f"set_backend({b})->{outcome}")
        run.case((name, "switching", b, outcome, builtin_word in TRUE_WORDS), dict(w0, history=list(log)))
        run.count("switching_steps")
        if b == "no_such_backend":
            if outcome not in ("unknown-name", "missing"):
                run.violation(f"C03|{own}|switching|unknown-backend-name|{outcome.split(':')[0]}", f"{name}: set_backend('no_such_backend') -> {outcome}", dict(w0, history=log))
        elif expected and outcome != "selected":
            run.violation(f"C03|{own}|{b}|switching|supported-backend-not-selectable|{outcome.split(':')[0]}",
                          f"{name}: the host supports backend {b!r} (PASSLIB_BUILTIN_BCRYPT={builtin_word!r}) but set_backend -> {outcome}", dict(w0, history=log))
        elif not expected and outcome not in ("missing",) and not (outcome == "selected" and b == "builtin" and own != "bcrypt"):
            if outcome != "selected":
                run.violation(f"C03|{own}|{b}|switching|unavailable-backend|{outcome.split(':')[0]}", f"{name}: set_backend({b!r}) of an unavailable backend -> {outcome} (MissingBackendError expected)", dict(w0, history=log))
        if outcome == "selected":
            current = b
            run.count("switching_selected")
        else:
            run.count("switching_refused")
        # the hasher keeps working and names the backend last selected successfully
        try:
            now = h.get_backend()
        except Exception as e:
            now = f"EXC:{type(e).__name__}"
        if now != current:
            run.violation(f"C03|{own}|switching|get_backend-after-{'failed' if outcome != 'selected' else 'successful'}-select", f"{name}: after {log} get_backend() = {now!r}, expected {current!r}", dict(w0, history=log))
            return
        if not probe("after-failed-select" if outcome != "selected" else f"under-{b}", log):
            return


def ledger(run, seq_seed, length):
    """set_backend / has_backend sequences across hashers: the outputs of every hasher stay the same (all backends
    agree, queries are read-only); the only admitted change is the documented refusal of non-UTF-8 bytes by a
    bcrypt-family hasher whose *reported* backend is os_crypt (known finding)"""
    rng = run.rng(f"ledger:{seq_seed}")
    fixed = {}
    for n in MULTI:
        h = H.get(n)
        st = {}
        if "rounds" in h.setting_kwds:
            st["rounds"] = H.rounds_values(h, "quick")[0]
        st["salt"] = H.gen_salt(h, rng)
        fixed[n] = (st, H.pw_bytes(rng, rng.choice([1, 8, 17])).decode(), H.pw_bytes(rng, rng.choice([2, 9]), "high"))

    def snapshot():
        out = {}
        for n, (st, pw, raw) in fixed.items():
            hh = H.apply(H.get(n), st)
            out[n] = hh.hash(pw)
            try:
                out[n + "/non-utf8"] = hh.hash(raw)
            except ValueError as e:
                out[n + "/non-utf8"] = "refused:" + type(e).__name__
        return out
    for n in MULTI:
        if owner_name(n) == "bcrypt":
            H.get(n).set_backend("bcrypt")
    base = snapshot()
    seq = []
    for step in range(length):
        n = rng.choice(MULTI)
        h = H.get(n)
        kind = rng.choice(["set", "set", "query"])
        try:
            if kind == "query":
                b = rng.choice(list(h.backends))
                h.has_backend(b)
            else:
                b = rng.choice([x for x in h.backends if _has(h, x)])
                h.set_backend(b)
        except Exception as e:
            run.violation(f"C03|{n}|{b}|select|{type(e).__name__}", f"{n}: {kind} {b!r} failed in sequence: {e}", dict(seq=seq))
            continue
        seq.append((kind, n, b))
        now = snapshot()
        changed = []
        for m in now:
            if now[m] == base[m]:
                continue
            hn = m.split("/")[0]
            if m.endswith("/non-utf8") and owner_name(hn) == "bcrypt" and H.get(hn).get_backend() == "os_crypt" and now[m].startswith("refused:"):
                run.count("ledger_known_os_crypt_refusal")
                continue
            changed.append(m)
        backends = {m: H.get(m).get_backend() for m in MULTI}
        run.case(("ledger", tuple(seq[-3:])), dict(sequence=list(seq), backends=backends))
        run.count("ledger_steps")
        run.count(f"ledger_{kind}")
        if changed:
            run.violation(f"C03|ledger|{kind}|{owner_name(n)}|output-changed",
                          f"{kind} backend {b!r} of {n} changed the outcome of {changed}", dict(sequence=seq, changed=changed, now={m: now[m] for m in changed}, before={m: base[m] for m in changed}))


def _has(h, b):
    try:
        return h.has_backend(b)
    except Exception:
        return False


def body(run):
    sup = host_supports()
    run.extra["host_supports"] = {f"{a}:{b}": v for (a, b), v in sorted(sup.items())}
    shards = [("agree", dict(name=n)) for n in MULTI]
    modes = ["hash-text", "hash-bytes", "verify-text", "verify-bytes"]
    for n in MULTI:
        for m in (modes if run.tier == "thorough" else modes[::3] if len(n) % 2 else modes[1:3]):
            shards.append(("fresh", dict(name=n, mode=m)))
    nl = 4 if run.tier == "quick" else 24
    for i in range(nl):
        shards.append(("ledger", dict(seq_seed=i, length=8 if run.tier == "quick" else 14)))
    by = {}
    for f, a in shards:
        by.setdefault(f, []).append(a)
    for f, al in by.items():
        run.parallel("checks.c03", f, al, timeout=900 if run.tier == "quick" else 3600, env={"PASSLIB_BUILTIN_BCRYPT": "1"})
    # the default environment (builtin bcrypt not enabled): first calls again
    run.parallel("checks.c03", "fresh", [dict(name=n, mode="hash-text") for n in ("bcrypt", "bcrypt_sha256", "django_bcrypt_sha256", "ldap_bcrypt")],
                 timeout=600, env={"PASSLIB_BUILTIN_BCRYPT": ""})
    # switching sequences without prior availability queries, under every documented spelling of the builtin-bcrypt switch
    words = list(TRUE_WORDS[:3] + FALSE_WORDS[:2]) if run.tier == "quick" else list(TRUE_WORDS + FALSE_WORDS)
    by_env = {}
    for i, n in enumerate(MULTI):
        fam = owner_name(n) == "bcrypt"
        for j, wd in enumerate(words if fam else [""]):
            by_env.setdefault(wd, []).append(dict(name=n, order_seed=(i + j) % 3 if run.tier == "quick" else j, builtin_word=wd))
    for wd, al in by_env.items():
        run.parallel("checks.c03", "switching", al, timeout=900 if run.tier == "quick" else 3600, env={"PASSLIB_BUILTIN_BCRYPT": wd})
    run.require("switching_steps", 60)
    run.require("switching_refused", 10)
    run.require("switching_probes", 300)
    run.note("scrypt: third-party 'scrypt' package backend not installed on this host - not exercised")
    for n in MULTI:
        run.require(f"pair:{n}", 2)
    run.require("first_calls", len(MULTI))
    run.require("ledger_steps", 8)
    run.require("non_utf8_under_os_crypt", 3)
    run.assumptions += ["host capability is established by direct calls into legacycrypt / bcrypt / hashlib on published vectors",
                        "PASSLIB_BUILTIN_BCRYPT=1 makes the documented builtin bcrypt backend eligible"]


if __name__ == "__main__":
    main("C03", "exploration", RULE, body)
