"""C12 - binary-to-text encodings are exact inverses and match their alphabets.

Exhaustive differential monitor: every 1- and 2-byte string individually, 3-byte groups in long chunk-aligned buffers
(all 2^24 in the thorough tier) and random strings of every length 0..200, for every engine (hash64 little/big endian,
bcrypt64, a generic engine in both bit orders, libpass' copy), against stdlib base64 under alphabet translation (and the
byte/char reversal that defines the little-endian layout); fixed-width integer codecs over all 6/12-bit (24-bit sampled
or complete) values and the range boundaries; unpadded / dot-variant base64 and base32 helpers; padding-bit repair against
a small model; transposed encode/decode over the offset tables the hashes use."""
import base64
import binascii

from vlib import hashers as H
from vlib.refimpl import formats as F
from vlib.run import main

RULE = ("case = one encode / decode / repair call compared with the stdlib-derived reference (or one long buffer of chunk-aligned "
        "3-byte groups); distinct = distinct (engine, operation, input length class) tuples; sub-spaces enumerated completely "
        "are listed in coverage.exhaustive_subspaces")
STD = F.STD64


def ref_encode(data, alphabet, big):
    if big:
        s = base64.b64encode(data).rstrip(b"=").decode()
    else:
        n = len(data)
        full = n - n % 3
        rev = bytearray(full)
        rev[0::3], rev[1::3], rev[2::3] = data[2:full:3], data[1:full:3], data[0:full:3]
        e = base64.b64encode(bytes(rev)).decode()
        out = [""] * len(e)
        out[0::4], out[1::4], out[2::4], out[3::4] = e[3::4], e[2::4], e[1::4], e[0::4]
        s = "".join(out)
        tail = data[full:]
        if tail:
            v = int.from_bytes(tail, "little")
            for _ in range((len(tail) * 8 + 5) // 6):
                s += STD[v & 63]
                v >>= 6
    return s.translate(str.maketrans(STD, alphabet))


def engines():
    import passlib.utils.binary as B
    custom = "ABCDEFGHIJKLMNOPQRSTUVWXYZabcdefghijklmnopqrstuvwxyz0123456789+/"
    return {
        "h64": (B.h64, B.HASH64_CHARS, False),
        "h64big": (B.h64big, B.HASH64_CHARS, True),
        "bcrypt64": (B.bcrypt64, B.BCRYPT_CHARS, True),
        "generic-little": (B.Base64Engine(custom), custom, False),
        "generic-big": (B.Base64Engine(custom, big=True), custom, True),
    }


def viol(run, eng, op, what, w):
    run.violation(f"C12|{eng}|{op}", what, w)


def engine_work(run, eng):
    import passlib.utils.binary as B
    from libpass._utils.binary import Base64Engine as LPEngine
    rng = run.rng("eng:" + eng)
    if eng.startswith("libpass"):
        big = eng.endswith("big")
        alphabet = B.HASH64_CHARS
        e = LPEngine(alphabet, big=big)
        dec = None
    else:
        e, alphabet, big = engines()[eng]
        dec = e.decode_bytes

    def check(data, label):
        want = ref_encode(data, alphabet, big)
        try:
            got = e.encode_bytes(data)
        except Exception as ex:
            viol(run, eng, f"encode-raises|{type(ex).__name__}", f"{eng}.encode_bytes raised {ex}", dict(data=data))
            return
        run.trivial()
        if got != want.encode("ascii"):
            viol(run, eng, f"encode|{label}", f"{eng}.encode_bytes({data[:12].hex()}.. {len(data)} bytes) = {got[:24]!r}, reference {want[:24]!r}",
                 dict(data=data[:64], got=got[:64], want=want[:64], length=len(data)))
            return
        if any(c not in alphabet.encode() for c in got):
            viol(run, eng, "alphabet", f"{eng}: output outside the alphabet", dict(data=data[:32]))
        if dec is not None:
            try:
                back = dec(got)
                back2 = back            # (the engines document bytes input only)
            except Exception as ex:
                viol(run, eng, f"decode-raises|{type(ex).__name__}", f"{eng}.decode_bytes raised {ex} on its own output", dict(data=data[:32]))
                return
            if back != data or back2 != data:
                viol(run, eng, f"decode|{label}", f"{eng}: decode(encode(x)) != x for a {len(data)}-byte input", dict(data=data[:64], back=back[:64]))
    # every 1- and 2-byte string individually
    for a in range(256):
        check(bytes([a]), "1-byte")
    for a in range(256):
        for b in range(256):
            check(bytes([a, b]), "2-byte")
    run.case((eng, "all-1-and-2-byte-strings"), dict(engine=eng, inputs=65792, example=[b"\x01\xfe".hex(), e.encode_bytes(b"\x01\xfe").decode()]), n=65792)
    run.count(f"small:{eng}", 65792)
    # 3-byte groups in chunk-aligned buffers
    total = 1 << 24
    span = total if run.tier == "thorough" else 1 << 20
    start = 0 if run.tier == "thorough" else rng.randrange(0, total - span)
    step = 1 << 15
    for base_ in range(start, start + span, step):
        buf = bytearray()
        for g in range(base_, base_ + step):
            buf += g.to_bytes(3, "big")
        check(bytes(buf), "3-byte-groups")
    run.case((eng, "3-byte-groups"), dict(engine=eng, groups=span, first_group=start), n=span)
    run.count(f"groups:{eng}", span)
    # a sample of groups individually and random strings of every length
    for _ in range(3000 if run.tier == "quick" else 170000):
        check(rng.getrandbits(24).to_bytes(3, "big"), "3-byte")
    for ln in range(0, 201):
        for _ in range(2 if run.tier == "quick" else 12):
            check(H.pw_bytes(rng, ln, "binary"), f"len%3={ln % 3}")
        run.distinct.add(f"{eng}|random|len{ln}")
    run.count(f"lengths:{eng}", 201)
    if dec is None:
        # libpass' engine only encodes: its transposed encoder over the hash tables and over the smallest / one-shot offset lists
        import passlib.handlers.md5_crypt as m5
        import passlib.handlers.sha2_crypt as s2
        for tname, offs, size in (("md5_crypt", list(m5._transpose_map), 16), ("sha256_crypt", list(s2._256_transpose_map), 32), ("sha512_crypt", list(s2._512_transpose_map), 64),
                                  ("empty", [], 4), ("single", [2], 4), ("pair", [3, 0], 4), ("triple", [1, 1, 0], 4)):
            for variant in ("list", "tuple"):
                data = H.pw_bytes(rng, size, "binary")
                want = ref_encode(bytes(data[o] for o in offs), alphabet, big)
                try:
                    got = e.encode_transposed_bytes(data, offs if variant == "list" else tuple(offs))
                except Exception as ex:
                    viol(run, eng, f"transposed|{tname}|{type(ex).__name__}", f"{eng}.encode_transposed_bytes with the {tname} offsets raised {type(ex).__name__}: {ex}", dict(table=tname))
                    continue
                run.count("transposed_small")
                if got != want.encode():
                    viol(run, eng, f"transposed|{tname}", f"{eng}.encode_transposed_bytes(data, {tname} offsets) = {got!r}, reference {want!r}", dict(table=tname))
        return
    # malformed input
    for bad, why in ((b"a", "length 1 mod 4"), (b"abcde", "length 1 mod 4"), (b"ab!d", "char outside alphabet"), (b"ab\xffd", "non-ascii byte"),
                     (b"a cd", "blank")):
        if isinstance(bad, bytes) and all(c in alphabet.encode() for c in bad) and len(bad) % 4 != 1:
            continue
        try:
            r = e.decode_bytes(bad)
            viol(run, eng, "decode-malformed-accepted", f"{eng}.decode_bytes({bad!r}) ({why}) returned {r!r}", dict(input=bad))
        except ValueError:
            run.count("malformed_refused")
        except Exception as ex:
            viol(run, eng, f"decode-malformed|{type(ex).__name__}", f"{eng}.decode_bytes({bad!r}) ({why}) raised {type(ex).__name__}, not a value error", dict(input=bad))
        run.case((eng, "malformed", why), None)
    # padding bits: every final character for lengths 2 and 3 mod 4
    for tail, used_big, used_little in ((2, 0x30, 0x03), (3, 0x3C, 0x0F)):
        body = "".join(rng.choice(alphabet) for _ in range(4 + tail - 1))
        mask = used_big if big else used_little
        for ch in alphabet:
            s = body + ch
            clean = body + alphabet[alphabet.index(ch) & mask]
            for form, inp in (("str", s), ("bytes", s.encode())):
                try:
                    rep = e.repair_unused(inp)
                    flag, rep2 = e.check_repair_unused(inp)
                except Exception as ex:
                    viol(run, eng, f"repair-raises|{type(ex).__name__}", f"{eng}.repair_unused raised {ex}", dict(input=s))
                    continue
                want = clean if form == "str" else clean.encode()
                run.trivial()
                if rep != want or rep2 != want or flag is not (s != clean):
                    viol(run, eng, "repair-unused", f"{eng}.repair_unused({s!r}) = {rep!r} (flag {flag}), model {clean!r}", dict(input=s, got=rep, want=clean))
            # decoding tolerates or repairs only the unused bits
            try:
                d1 = e.decode_bytes(s.encode())
                d2 = e.decode_bytes(clean.encode())
                if d1 != d2:
                    viol(run, eng, "decode-padding-bits", f"{eng}: decode of {s!r} differs from its cleaned form {clean!r}", dict(input=s))
            except ValueError:
                pass
        # a final character outside the alphabet is an error, not something to repair
        for badch in ("!", "\u00e9", " ", "~", "\x00"):
            if badch in alphabet:
                continue
            for form, inp in (("str", body + badch), ("bytes", (body + badch).encode("latin-1"))):       # (one byte per character, so the length class stays the same)
                for fname in ("repair_unused", "check_repair_unused"):
                    try:
                        r_ = getattr(e, fname)(inp)
                        viol(run, eng, f"repair-invalid-final-char-accepted|{form}", f"{eng}.{fname}({inp!r}) returned {r_!r}; the last character is not in the alphabet", dict(input=repr(inp)))
                    except ValueError:
                        run.count("repair_invalid_refused")
                    except Exception as ex:
                        viol(run, eng, f"repair-invalid-final-char|{type(ex).__name__}", f"{eng}.{fname}({inp!r}) raised {type(ex).__name__}, not a value error", dict(input=repr(inp)))
        run.case((eng, "padding-bits", tail), dict(engine=eng, every_final_character=64, tail=tail))
    run.count("repair_checks", 128)
    # integers
    widths = {6: (e.encode_int6, e.decode_int6, 1), 12: (e.encode_int12, e.decode_int12, 2), 24: (e.encode_int24, e.decode_int24, 4),
              30: (e.encode_int30, e.decode_int30, 5), 64: (e.encode_int64, e.decode_int64, 11)}

    def ref_int(v, bits, nchars):
        pad = nchars * 6 - bits
        if big:
            w = v << pad
            return "".join(alphabet[(w >> (6 * (nchars - 1 - i))) & 63] for i in range(nchars))
        return "".join(alphabet[(v >> (6 * i)) & 63] for i in range(nchars))
    for bits, (enc, de, nchars) in widths.items():
        if bits <= 12:
            vals = range(1 << bits)
        elif bits == 24:
            vals = range(1 << 24) if run.tier == "thorough" and eng == "h64" else [rng.getrandbits(24) for _ in range(20000)] + [0, 1, (1 << 24) - 1] + [1 << i for i in range(24)]
        else:
            vals = [rng.getrandbits(bits) for _ in range(5000)] + [0, 1, (1 << bits) - 1, (1 << bits) - 2] + [1 << i for i in range(bits)]
        n = 0
        for v in vals:
            n += 1
            try:
                s = enc(v)
                back = de(s)
            except Exception as ex:
                viol(run, eng, f"int{bits}-raises|{type(ex).__name__}", f"{eng}.encode/decode_int{bits}({v}) raised {ex}", dict(value=v))
                break
            if s != ref_int(v, bits, nchars).encode() or back != v:
                viol(run, eng, f"int{bits}", f"{eng}.encode_int{bits}({v}) = {s!r} (reference {ref_int(v, bits, nchars)!r}), decoded back {back}", dict(value=v, encoded=s))
                break
        run.case((eng, f"int{bits}"), dict(engine=eng, width=bits, values=n), n=n)
        run.count(f"ints:{eng}", n)
        # out-of-range values and wrong-length input
        for v in (-1, 1 << bits, (1 << bits) + 1, 1 << (bits + 3)):
            try:
                r = enc(v)
                viol(run, eng, f"int{bits}-out-of-range-accepted", f"{eng}.encode_int{bits}({v}) returned {r!r} instead of raising ValueError", dict(value=v, bits=bits),)
            except ValueError:
                run.count("out_of_range_refused")
            except Exception as ex:
                viol(run, eng, f"int{bits}-out-of-range|{type(ex).__name__}", f"{eng}.encode_int{bits}({v}) raised {type(ex).__name__}", dict(value=v))
        for bad in (b"", b"." * (nchars + 1), b"." * (nchars - 1) if nchars > 1 else b"..", b"!" * nchars):
            try:
                r = de(bad)
                viol(run, eng, f"int{bits}-decode-malformed-accepted", f"{eng}.decode_int{bits}({bad!r}) returned {r!r}", dict(input=bad))
            except ValueError:
                pass
            except Exception as ex:
                viol(run, eng, f"int{bits}-decode-malformed|{type(ex).__name__}", f"{eng}.decode_int{bits}({bad!r}) raised {type(ex).__name__}", dict(input=bad))
    # transposed encode / decode over the offset tables the hashes use
    tables = {}
    try:
        import passlib.handlers.md5_crypt as m5
        import passlib.handlers.sha2_crypt as s2
        tables["md5_crypt"] = (m5._transpose_map, 16)
        tables["sha256_crypt"] = (s2._256_transpose_map, 32)
        tables["sha512_crypt"] = (s2._512_transpose_map, 64)
    except Exception as ex:
        run.note(f"transpose tables not importable: {ex}")
    # the smallest offset lists, and offsets handed over as a one-shot iterable
    for tname, tmap, size in (("empty", [], 4), ("single", [2], 4), ("pair", [3, 0], 4), ("generator", None, 16), ("reversed-range", None, 16)):
        data = H.pw_bytes(rng, size, "binary")
        offs = list(tmap) if tmap is not None else list(range(size - 1, -1, -1))
        arg = offs if tmap is not None else (iter(offs) if tname == "generator" else reversed(range(size)))
        want = ref_encode(bytes(data[o] for o in offs), alphabet, big)
        try:
            got = e.encode_transposed_bytes(data, arg)
        except Exception as ex:
            viol(run, eng, f"transposed|{tname}|{type(ex).__name__}", f"{eng}.encode_transposed_bytes with the {tname} offset list raised {type(ex).__name__}: {ex}", dict(table=tname))
            continue
        run.count("transposed_small")
        if got != want.encode():
            viol(run, eng, f"transposed|{tname}", f"{eng}.encode_transposed_bytes(data, {tname} offsets) = {got!r}, reference {want!r}", dict(table=tname))
    for tname, (tmap, size) in tables.items():
        for _ in range(30):
            data = H.pw_bytes(rng, size, "binary")
            want = ref_encode(bytes(data[o] for o in tmap), alphabet, big)
            got = e.encode_transposed_bytes(data, tmap)
            back = e.decode_transposed_bytes(got, tmap)
            run.trivial()
            if got != want.encode() or back != data:
                viol(run, eng, f"transposed|{tname}", f"{eng}: transposed encode/decode with the {tname} table is not an exact inverse / differs from the reference", dict(table=tname))
        run.case((eng, "transposed", tname), dict(engine=eng, table=tname, size=size))
    run.count("transposed", len(tables))


def helpers(run):
    import passlib.utils.binary as B
    import libpass._utils.deprecated as LD
    rng = run.rng("helpers")
    impls = {"passlib": (B.b64s_encode, B.b64s_decode, B.ab64_encode, B.ab64_decode), "libpass": (LD.b64s_encode, LD.b64s_decode, LD.ab64_encode, LD.ab64_decode)}
    for who, (se, sd, ae, ad) in impls.items():
        def one(data):
            std = base64.b64encode(data).rstrip(b"=")
            dot = std.replace(b"+", b".")
            run.trivial()
            for fam, calls in ((f"{who}.b64s", (("encode", se, data, std), ("decode-bytes", sd, std, data), ("decode-text", sd, std.decode(), data))),
                               (f"{who}.ab64", (("encode", ae, data, dot), ("decode-bytes", ad, dot, data), ("decode-plus-bytes", ad, std, data),
                                                ("decode-text", ad, dot.decode(), data), ("decode-plus-text", ad, std.decode(), data)))):
                for label, fn, arg, want in calls:
                    try:
                        got = fn(arg)
                    except Exception as ex:
                        viol(run, fam, f"roundtrip|{label}|raises|{type(ex).__name__}", f"{fam} {label}({arg[:16]!r}) raised {type(ex).__name__}: {ex}", dict(data=data[:32], input=arg[:64]))
                        continue
                    if got != want:
                        viol(run, fam, f"roundtrip|{label}", f"{fam} {label}({arg[:16]!r}) -> {got[:16]!r}, standard base64 under the alphabet translation says {want[:16]!r}", dict(data=data[:32], input=arg[:64]))
        for a in range(256):
            one(bytes([a]))
            for b in range(0, 256, 1 if run.tier == "thorough" else 5):
                one(bytes([a, b]))
        for ln in range(0, 201):
            one(H.pw_bytes(rng, ln, "binary"))
        for _ in range(20000 if run.tier == "quick" else 200000):
            one(rng.getrandbits(24).to_bytes(3, "big"))
        run.case((who, "b64s+ab64"), dict(helpers=who + " b64s/ab64", inputs="all 1-byte, 2-byte (sampled in quick), random 3-byte, every length 0..200"))
        run.count(f"helpers:{who}")
        # malformed: wrong length, characters outside the alphabet
        for fn, name in ((sd, "b64s_decode"), (ad, "ab64_decode")):
            for bad, why in ((b"a", "length-1-mod-4"), (b"abcde", "length-1-mod-4"), (b"ab!d", "invalid-char"), (b"a\x00cd", "invalid-char"), (b"ab=d", "inner-padding"),
                             ("abéd", "non-ascii-text"), (b"ab d", "invalid-char")) + tuple(
                                 (a + x * k + b, "non-ascii-text") for a in ("", "a", "ab", "abc", "abcd", "abcde") for b in ("", "Q", "QQ") for x in "é\u0100\u20ac\U0001f600" for k in (1, 2, 3)):
                try:
                    r = fn(bad)
                    viol(run, f"{who}.{name}", f"malformed-accepted|{why}", f"{who}.{name}({bad!r}) returned {r!r} instead of raising a value error", dict(input=bad))
                except ValueError:
                    run.count("malformed_refused")
                except Exception as ex:
                    viol(run, f"{who}.{name}", f"malformed|{why}|{type(ex).__name__}", f"{who}.{name}({bad!r}) raised {type(ex).__name__} ({ex}), not a value error", dict(input=bad))
                run.case((who, name, why), None)
    # base32 with typo correction
    for ln in list(range(0, 65)) + [100, 200]:
        for _ in range(4):
            data = H.pw_bytes(rng, ln, "binary")
            std = base64.b32encode(data).decode().rstrip("=")
            enc = B.b32encode(data)
            run.trivial()
            if enc != std or not isinstance(enc, str):
                viol(run, "b32", "encode", f"b32encode differs from RFC 4648 base32 (unpadded) for a {ln}-byte input", dict(data=data))
                continue
            typo = std.replace("B", "8").replace("O", "0")
            for label, variant in (("plain", std), ("lower", std.lower()), ("typos", typo), ("typos-lower", typo.lower()), ("padded", base64.b32encode(data).decode())):
                for form, inp in (("str", variant), ("bytes", variant.encode())):
                    try:
                        back = B.b32decode(inp)
                    except Exception as ex:
                        viol(run, "b32", f"decode|{label}|{form}|{type(ex).__name__}", f"b32decode({label}, {form}) raised {type(ex).__name__}: {ex}", dict(input=inp))
                        continue
                    if back != data:
                        viol(run, "b32", f"decode|{label}|{form}", f"b32decode of the {label} spelling ({form}) does not give the data back", dict(input=inp))
    for bad in (b"1", b"A9======", b"!!!!", "AAé", "ABCDEFG\u0131", "\u017fBCDEFGH", "ABCDEF\ufb01", "ABCD\ufb06FGH", "abcdefg\u0131"):
        try:
            r = B.b32decode(bad)
            viol(run, "b32", "malformed-accepted", f"b32decode({bad!r}) returned {r!r}", dict(input=bad))
        except ValueError:
            pass
        except Exception as ex:
            viol(run, "b32", f"malformed|{type(ex).__name__}", f"b32decode({bad!r}) raised {type(ex).__name__}", dict(input=bad))
    run.case(("b32", "all"), dict(helper="b32encode/b32decode", lengths="0..64,100,200", spellings=["plain", "lower", "typos 8/0", "padded"], forms=["str", "bytes"]))
    run.count("b32")


def body(run):
    names = list(engines()) + ["libpass-little", "libpass-big"]
    run.parallel("checks.c12", "engine_work", [dict(eng=n) for n in names], timeout=1200 if run.tier == "quick" else 7000)
    helpers(run)
    for n in names:
        run.require(f"small:{n}", 65792)
        run.require(f"groups:{n}", 1 << 20)
        run.require(f"lengths:{n}", 201)
    run.require("repair_checks", 128)
    run.require("b32", 1)
    run.require("transposed_small", 20)
    run.exhaustive = True
    run.extra["exhaustive_subspaces"] = ["every 1-byte and 2-byte string for every engine (65 792 each)", "all 6- and 12-bit integers for every engine",
                                         "every final character for padding-bit repair (tails 2 and 3)",
                                         "3-byte groups: all 2^24 per engine in the thorough tier, a contiguous window of 2^20 in the quick tier"]
    run.assumptions += ["reference = stdlib base64/base32 under alphabet translation; the little-endian layout is the documented bit order (first byte in the low bits)"]


if __name__ == "__main__":
    main("C12", "exploration", RULE, body)
