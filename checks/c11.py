"""C11 - the built-in cryptographic primitives equal their standards.

Differential monitor of the pure-python primitives against independent references: textbook DES from the FIPS tables
(salted / multi-round crypt(3) variants, 7->8 byte key expansion), the bcrypt wheel for the Blowfish core, textbook MD4
(one shot, every split into update() calls, copy() at every prefix), hashlib.scrypt for the scrypt engine, stdlib hmac,
textbook PBKDF1/PBKDF2, and a SASLprep restated from RFC 4013.  Exhaustive where the space is small."""
import hashlib
import hmac as std_hmac

from vlib import hashers as H
from vlib.refimpl import des as RD
from vlib.refimpl import formats as F
from vlib.refimpl.md4 import md4 as ref_md4
from vlib.refimpl.saslprep import saslprep as ref_saslprep
from vlib.run import main

RULE = ("case = one primitive call compared with its reference (DES: key/block/salt/rounds; bcrypt core: ident/cost/password/salt; "
        "MD4: message and split; scrypt: N/r/p/keylen; HMAC: digest/key length/message; PBKDF: digest/rounds/keylen; SASLprep: string); "
        "distinct = distinct (primitive, parameter class) tuples")


def des(run, part, parts):
    from passlib.crypto.des import des_encrypt_block, des_encrypt_int_block, expand_des_key, shrink_des_key
    rng = run.rng(f"des{part}")
    probs = []
    try:
        RD.selftest()
    except AssertionError as e:
        run.set_inconclusive("textbook DES failed its known-answer self test")
        return

    def cmp(key, block, salt, rounds, label):
        want = RD.encrypt_int(key, block, salt, rounds)
        try:
            got = des_encrypt_int_block(key, block, salt, rounds)
        except Exception as e:
            run.violation(f"C11|des|raises|{type(e).__name__}", f"des_encrypt_int_block raised {e}", dict(key=key, block=block, salt=salt, rounds=rounds))
            return
        run.case(("des", label, rounds if rounds < 4 else "many", salt.bit_length()), dict(primitive="des_encrypt_int_block", key=hex(key), block=hex(block), salt=salt, rounds=rounds, out=hex(got)))
        run.count("des")
        if got != want:
            run.violation(f"C11|des|{label}|mismatch", f"DES({label}): key={key:#x} block={block:#x} salt={salt:#x} rounds={rounds}: {got:#x} != textbook {want:#x}",
                          dict(key=hex(key), block=hex(block), salt=salt, rounds=rounds, got=hex(got), want=hex(want)),
                          repro=f"from passlib.crypto.des import des_encrypt_int_block\nprint(hex(des_encrypt_int_block({key}, {block}, {salt}, {rounds})), 'expected', {want:#x})")
        # bytes interface agrees
        if salt == 0 and rounds == 1 and rng.random() < 0.2:
            kb, bb = key.to_bytes(8, "big"), block.to_bytes(8, "big")
            if des_encrypt_block(kb, bb) != want.to_bytes(8, "big"):
                run.violation("C11|des|bytes-interface|mismatch", "des_encrypt_block differs from textbook DES", dict(key=hex(key), block=hex(block)))
    if part == 0:
        for i in range(64):                    # unit vectors
            cmp(1 << i, 0, 0, 1, "unit-key")
            cmp(0x0123456789ABCDEF, 1 << i, 0, 1, "unit-block")
        for b in range(24):                    # every salt bit alone, and the crypt(3) round counts
            cmp(rng.getrandbits(64), 0, 1 << b, 1, "salt-bit")
            cmp(rng.getrandbits(64), rng.getrandbits(64), 1 << b, 25, "salt-bit")
        for r in range(1, 31):
            cmp(rng.getrandbits(64), 0, rng.getrandbits(12), r, "rounds")
            cmp(rng.getrandbits(64), rng.getrandbits(64), rng.getrandbits(24), r, "rounds24")
        # key expansion
        for i in range(400):
            k7 = rng.getrandbits(56).to_bytes(7, "big") if i > 60 else (1 << (i % 56)).to_bytes(7, "big")
            want = RD.expand_key(k7)
            got = expand_des_key(k7)
            # parity bits are unspecified: compare the 7 key bits of every byte
            if bytes(b & 0xFE for b in got) != want or shrink_des_key(got) != k7:
                run.violation("C11|des|key-expansion|mismatch", f"expand_des_key({k7.hex()}) = {got.hex()}, textbook {want.hex()}", dict(key=k7.hex()))
            run.case(("des", "expand-key", i < 60), dict(primitive="expand_des_key", key7=k7.hex(), key8=got.hex()))
            # 7-byte keys through the block interface
            if i % 10 == 0:
                blk = rng.getrandbits(64).to_bytes(8, "big")
                if des_encrypt_block(k7, blk) != RD.encrypt_block(k7, blk):
                    run.violation("C11|des|7-byte-key|mismatch", "des_encrypt_block with a 7 byte key differs", dict(key=k7.hex()))
    # salts: all 4096 12-bit salts split over the shards; 24-bit sample
    for s in range(part, 4096, parts):
        cmp(rng.getrandbits(64), rng.getrandbits(64) if s % 2 else 0, s, 1 if s % 8 else 3, "salt12")
    for _ in range(600 // parts if run.tier == "quick" else 120000 // parts):
        cmp(rng.getrandbits(64), rng.getrandbits(64), rng.getrandbits(24) | (1 << rng.randrange(24)), rng.choice([1, 1, 2, 25]), "salt24")
    for _ in range(400 // parts if run.tier == "quick" else 40000 // parts):
        cmp(rng.getrandbits(64), rng.getrandbits(64), 0, 1, "random")


def blowfish_engines(run):
    """the loop-based reference engine and the unrolled engine the bcrypt core uses are the same function:
    same key schedule (P and S arrays) and same cipher output after every primitive, on generated keys / salts,
    and both reproduce published Blowfish ECB vectors"""
    from passlib.crypto._blowfish.base import BlowfishEngine as Base
    from passlib.crypto._blowfish.unrolled import BlowfishEngine as Unrolled
    rng = run.rng("bf-engines")
    # Schneier's published ECB vectors: (key, plaintext, ciphertext)
    vectors = [("0000000000000000", "0000000000000000", "4EF997456198DD78"), ("FFFFFFFFFFFFFFFF", "FFFFFFFFFFFFFFFF", "51866FD5B85ECB8A"),
               ("3000000000000000", "1000000000000001", "7D856F9A613063F2"), ("0123456789ABCDEF", "1111111111111111", "61F9C3802281B096"),
               ("FEDCBA9876543210", "0123456789ABCDEF", "0ACEAB0FC6A0A28D")]
    for cls in (Base, Unrolled):
        for key, pt, ct in vectors:
            e = cls()
            e.expand(cls.key_to_words(bytes.fromhex(key)))
            l, r = int(pt[:8], 16), int(pt[8:], 16)
            out = e.encipher(l, r)
            run.count("blowfish_ecb_vectors")
            if "%08X%08X" % tuple(out) != ct:
                run.violation(f"C11|blowfish-engine|{cls.__module__.split('.')[-1]}|ecb-vector", f"{cls.__module__}.BlowfishEngine: key {key} plaintext {pt} -> {'%08X%08X' % tuple(out)}, published {ct}", dict(key=key))
    for i in range(12 if run.tier == "quick" else 120):
        key = H.pw_bytes(rng, rng.choice([1, 4, 8, 17, 56, 72]), "binary")
        salt = H.pw_bytes(rng, 16, "binary")
        a, b = Base(), Unrolled()
        kw_a, kw_b = Base.key_to_words(key), Unrolled.key_to_words(key)
        sw = Base.key_to_words(salt, 4)
        ops = [("expand", lambda e, kw: e.expand(kw)), ("eks_salted_expand", lambda e, kw: e.eks_salted_expand(kw, sw)), ("expand-again", lambda e, kw: e.expand(kw))]
        if i % 4 == 0:
            sw18 = Base.key_to_words(salt)
            ops.append(("eks_repeated_expand", lambda e, kw: e.eks_repeated_expand(kw, sw18, 3)))
        for label, op in ops:
            op(a, kw_a)
            op(b, kw_b)
            l, r = rng.getrandbits(32), rng.getrandbits(32)
            same_state = list(a.P) == list(b.P) and [list(x) for x in a.S] == [list(x) for x in b.S]
            same_out = tuple(a.encipher(l, r)) == tuple(b.encipher(l, r)) and tuple(a.repeat_encipher(l, r, 5)) == tuple(b.repeat_encipher(l, r, 5))
            run.count("blowfish_engine_steps")
            run.case(("blowfish-engines", label, len(key)), dict(primitive="BlowfishEngine base vs unrolled", step=label, key_len=len(key)))
            if not (same_state and same_out):
                run.violation(f"C11|blowfish-engine|base-vs-unrolled|{label}", f"after {label} with a {len(key)}-byte key the reference engine and the unrolled engine differ ({'key schedule' if not same_state else 'cipher output'})",
                              dict(key=key, salt=salt, step=label))
                break


def blowfish(run, part, parts):
    from passlib.crypto._blowfish import raw_bcrypt
    rng = run.rng(f"bf{part}")
    n = (40 if run.tier == "quick" else 1600) // parts + 1
    lens = [0, 1, 2, 7, 8, 17, 18, 54, 55, 56, 71, 72, 73] + list(range(3, 70, 7))
    for i in range(n):
        ident = ("2", "2a", "2y", "2b")[(i + part) % 4]
        cost = 4 if (run.tier == "quick" or i % 5) else rng.choice([5, 6])
        ln = lens[(i * parts + part) % len(lens)]
        pw = H.pw_bytes(rng, ln, rng.choice(["ascii", "binary", "high"]))
        salt = H.gen_salt(H.get("bcrypt"), rng, 22)
        try:
            want = F._bcrypt_raw(pw, f"${ident}$", cost, salt)
        except F.NotCovered:
            continue
        try:
            got = raw_bcrypt(pw, ident, salt.encode("ascii"), cost).decode("ascii")
        except Exception as e:
            run.violation(f"C11|bcrypt-core|raises|{type(e).__name__}", f"raw_bcrypt raised {e}", dict(ident=ident, cost=cost, password=pw, salt=salt))
            continue
        run.case(("bcrypt-core", ident, cost, ln), dict(primitive="raw_bcrypt", ident=ident, cost=cost, password=pw, salt=salt, checksum=got))
        run.count("bcrypt_core")
        if got != want:
            run.violation(f"C11|bcrypt-core|{ident}|mismatch", f"raw_bcrypt(ident={ident}, cost={cost}, {ln}-byte password) = {got}, bcrypt library {want}",
                          dict(ident=ident, cost=cost, password=pw, salt=salt, got=got, want=want))


def md4(run):
    from passlib.crypto._md4 import md4 as pmd4
    from passlib.crypto.digest import lookup_hash
    rng = run.rng("md4")
    msg = H.pw_bytes(rng, 400, "binary")
    for ln in range(0, 301):
        m = msg[:ln]
        want = ref_md4(m)
        got = pmd4(m).digest()
        run.case(("md4", "oneshot", ln), dict(primitive="md4", length=ln, digest=got.hex()))
        run.count("md4")
        if got != want or pmd4(m).hexdigest() != want.hex():
            run.violation("C11|md4|one-shot|mismatch", f"md4 of a {ln}-byte message differs from RFC 1320", dict(length=ln, msg=m))
        # splits into <= 3 update() calls
        cuts = [(a, b) for a in range(0, ln + 1, max(1, ln // 9)) for b in range(a, ln + 1, max(1, ln // 7))] if run.tier == "thorough" or ln % 5 == 0 else \
            [(rng.randint(0, ln), ln), (ln // 2, ln // 2), (0, ln), (min(64, ln), min(128, ln)), (min(63, ln), min(65, ln))]
        for a, b in cuts:
            if a > b:
                a, b = b, a
            hsh = pmd4()
            hsh.update(m[:a])
            hsh.update(m[a:b])
            hsh.update(m[b:])
            run.trivial()
            if hsh.digest() != want:
                run.violation("C11|md4|split-updates|mismatch", f"md4 with updates split at {a},{b} of {ln} bytes differs from one-shot", dict(length=ln, split=[a, b]))
                break
        # copy() mid-stream at a prefix: both halves continue independently
        for a in ({0, ln // 3, ln // 2, 63, 64, 65, 127, 128, 129, ln} if ln % 3 == 0 or run.tier == "thorough" else {ln // 2, min(ln, 64)}):
            if a > ln:
                continue
            h1 = pmd4(m[:a])
            h2 = h1.copy()
            h1.update(b"other data")
            h2.update(m[a:])
            run.trivial()
            run.count("md4_copy")
            if h2.digest() != want or h1.digest() != ref_md4(m[:a] + b"other data"):
                run.violation("C11|md4|copy|mismatch", f"md4.copy() after {a} bytes: the clone's digest differs from one-shot hashing ({ln} bytes)", dict(length=ln, copy_at=a),
                              repro=f"from passlib.crypto._md4 import md4\nm=bytes(range(256))*2\nh=md4(m[:{a}]).copy(); h.update(m[{a}:{ln}]); print(h.hexdigest(), md4(m[:{ln}]).hexdigest())")
                break
    # the registry's md4 (hashlib's when present, else the builtin)
    const = lookup_hash("md4").const
    for ln in (0, 1, 55, 56, 64, 119, 200):
        if const(msg[:ln]).digest() != ref_md4(msg[:ln]):
            run.violation("C11|md4|lookup_hash|mismatch", "lookup_hash('md4') constructor differs from RFC 1320", dict(length=ln))


def scrypt(run, part, parts):
    from passlib.crypto.scrypt._builtin import ScryptEngine
    rng = run.rng(f"scrypt{part}")
    combos = []
    ns = [2, 4, 8, 16, 32, 64] + ([128, 256] if run.tier == "quick" else [128, 256, 512, 1024, 2048, 4096])
    for n in ns:
        for r in (1, 2, 3, 4, 8) if n <= 64 else (1, 2) if n <= 1024 else (1,):
            for p in (1, 2, 3, 4) if n <= 16 else (1, 2):
                combos.append((n, r, p))
    rng.shuffle(combos)
    mine = combos[part::parts]
    if run.tier == "quick":
        mine = sorted(mine, key=lambda c: c[0] * c[1] * c[2])[:10] + mine[-2:]
    for n, r, p in mine:
        for keylen in {1, rng.randint(2, 31), 32, 33, 64, rng.randint(65, 130)} if n <= 32 else {rng.choice([1, 32, 65, 130])}:
            secret = H.pw_bytes(rng, rng.choice([0, 1, 8, 64, 65]), "binary")
            salt = H.pw_bytes(rng, rng.choice([0, 1, 16, 33]), "binary")
            try:
                want = hashlib.scrypt(secret, salt=salt, n=n, r=r, p=p, dklen=keylen, maxmem=2 ** 27)
            except ValueError:
                continue
            try:
                got = ScryptEngine.execute(secret, salt, n, r, p, keylen)
            except Exception as e:
                run.violation(f"C11|scrypt|raises|{type(e).__name__}", f"builtin scrypt raised {e}", dict(n=n, r=r, p=p, keylen=keylen))
                continue
            run.case(("scrypt", n, r, p, keylen > 64), dict(primitive="ScryptEngine.execute", n=n, r=r, p=p, keylen=keylen, out=got.hex()[:32]))
            run.count("scrypt")
            if got != want:
                run.violation("C11|scrypt|mismatch", f"builtin scrypt(n={n}, r={r}, p={p}, keylen={keylen}) differs from OpenSSL scrypt", dict(n=n, r=r, p=p, keylen=keylen, secret=secret, salt=salt))


def hmac_pbkdf(run):
    from passlib.crypto.digest import compile_hmac, pbkdf1, pbkdf2_hmac, lookup_hash
    rng = run.rng("hmac")
    digests = ["md5", "sha1", "sha224", "sha256", "sha384", "sha512", "sha3_256", "sha3_512", "blake2b", "md4"]
    for d in digests:
        try:
            info = lookup_hash(d)
            bs = info.block_size
        except Exception:
            continue
        std = d if d in hashlib.algorithms_available else None
        for kl in sorted({0, 1, bs - 1, bs, bs + 1, 2 * bs, 2 * bs + 2, rng.randint(2, bs - 2), info.digest_size}):
            key = H.pw_bytes(rng, kl, "binary")
            msg = H.pw_bytes(rng, rng.choice([0, 1, 63, 64, 200]), "binary")
            if std:
                want = std_hmac.new(key, msg, std).digest()
            else:
                # md4 is not in this OpenSSL: HMAC per RFC 2104 over the textbook MD4
                k = ref_md4(key) if len(key) > 64 else key
                k = k + b"\x00" * (64 - len(k))
                want = ref_md4(bytes(x ^ 0x5C for x in k) + ref_md4(bytes(x ^ 0x36 for x in k) + msg))
            got = compile_hmac(d, key)(msg)
            upd, fin = compile_hmac(d, key, multipart=True)()
            upd(msg[:len(msg) // 2])
            upd(msg[len(msg) // 2:])
            got2 = fin()
            # documented: finalize() may be called repeatedly at any point for the HMAC of the data so far; several
            # independent (update, finalize) pairs from one compiled function do not influence each other
            if std is not None:
                maker = compile_hmac(d, key, multipart=True)
                (u1, f1), (u2, f2) = maker(), maker()
                so_far = b""
                for piece in (msg[:3], b"", msg[3:], b"tail" * 20):
                    u1(piece)
                    so_far += piece
                    u2(piece[::-1])
                    for rep in range(2):
                        r1 = f1()
                        run.count("hmac_incremental_finalize")
                        if r1 != std_hmac.new(key, so_far, std).digest():
                            run.violation(f"C11|hmac|multipart|finalize-{'repeated' if rep else 'after-update'}|mismatch",
                                          f"HMAC-{d} multipart: finalize() #{rep + 1} after {len(so_far)} bytes differs from the HMAC of the data so far", dict(digest=d, key_len=kl, key=key, data=so_far))
                            break
            rel = "below" if kl < bs else "at" if kl == bs else "above"
            run.case(("hmac", d, rel, kl), dict(primitive="compile_hmac", digest=d, key_len=kl, block_size=bs, out=got.hex()[:24]))
            run.count("hmac")
            if got != want or got2 != want:
                run.violation(f"C11|hmac|key-{rel}-block-size|mismatch", f"HMAC-{d} with a {kl}-byte key (block size {bs}) differs from RFC 2104", dict(digest=d, key_len=kl, key=key, msg=msg),
                              repro=f"import hmac\nfrom passlib.crypto.digest import compile_hmac\nk=b'k'*{kl}\nprint(compile_hmac({d!r},k)(b'm').hex(), hmac.new(k,b'm',{d!r}).hexdigest())")
    # PBKDF1 / PBKDF2
    for d in ("md5", "sha1", "sha256", "sha512", "sha3_256"):
        size = hashlib.new(d).digest_size
        for rounds in (1, 2, 3, 10, 50):
            for keylen in sorted({1, size - 1, size, size + 1, 2 * size, 2 * size + 1, rng.randint(1, 3 * size)}):
                pw, salt = H.pw_bytes(rng, rng.choice([0, 1, 8, 65, 130]), "binary"), H.pw_bytes(rng, rng.choice([0, 8, 16]), "binary")
                want = F.pbkdf2(d, pw, salt, rounds, keylen)
                try:
                    got = pbkdf2_hmac(d, pw, salt, rounds, keylen)
                except Exception as e:
                    run.violation(f"C11|pbkdf2|raises|{type(e).__name__}", f"pbkdf2_hmac raised {e}", dict(digest=d, rounds=rounds, keylen=keylen))
                    continue
                run.case(("pbkdf2", d, rounds, "multi-block" if keylen > size else "one-block"), dict(primitive="pbkdf2_hmac", digest=d, rounds=rounds, keylen=keylen))
                run.count("pbkdf2")
                if got != want:
                    run.violation(f"C11|pbkdf2|{d}|mismatch", f"PBKDF2-HMAC-{d} rounds={rounds} keylen={keylen} differs from RFC 2898", dict(digest=d, rounds=rounds, keylen=keylen))
            for keylen in sorted({0, 1, size - 1, size}):
                pw, salt = H.pw_bytes(rng, 9, "binary"), H.pw_bytes(rng, 8, "binary")
                want = F.pbkdf1(d, pw, salt, rounds, keylen)
                got = pbkdf1(d, pw, salt, rounds, keylen)
                run.case(("pbkdf1", d, rounds, keylen == size), dict(primitive="pbkdf1", digest=d, rounds=rounds, keylen=keylen))
                run.count("pbkdf1")
                if got != want:
                    run.violation(f"C11|pbkdf1|{d}|mismatch", f"PBKDF1-{d} rounds={rounds} keylen={keylen} differs from RFC 2898", dict(digest=d, rounds=rounds, keylen=keylen))
            try:
                pbkdf1(d, b"x", b"y", rounds, size + 1)
                run.violation("C11|pbkdf1|oversize-key-accepted", f"pbkdf1 accepted keylen > digest size ({d})", dict(digest=d))
            except ValueError:
                pass


def saslprep(run, part, parts):
    from passlib.utils import saslprep as psasl
    import unicodedata
    rng = run.rng(f"sasl{part}")

    def one(s, label):
        try:
            want = ref_saslprep(s)
        except ValueError:
            want = ValueError
        try:
            got = psasl(s)
        except ValueError:
            got = ValueError
        except Exception as e:
            run.violation(f"C11|saslprep|raises|{type(e).__name__}", f"saslprep({s!r}) raised {type(e).__name__}", dict(string=s))
            return
        run.trivial()
        run.count("saslprep")
        if got != want and "\u200b" in s:
            # U+200B is in both mapping tables; either reading of RFC 4013 is admissible
            try:
                want2 = ref_saslprep(s, both_tables_to="nothing")
            except ValueError:
                want2 = ValueError
            if got == want2:
                run.count("saslprep_u200b_ambiguity")
                return
        if got != want:
            run.violation(f"C11|saslprep|{label}|mismatch", f"saslprep({s!r}) = {got!r}, RFC 4013 says {want!r}", dict(string=s, codepoints=[hex(ord(c)) for c in s]),
                          repro=f"from passlib.utils import saslprep\nprint(repr(saslprep({s!r})))")
    if run.tier == "thorough":
        cps = range(part, 0x110000, parts)
    else:
        import stringprep as sp
        # table boundaries: every code point where membership of any table changes, +- 1, plus a sample
        cps = set()
        tables = [sp.in_table_a1, sp.in_table_b1, sp.in_table_c12, sp.in_table_c21, sp.in_table_c22, sp.in_table_c3, sp.in_table_c4, sp.in_table_c5,
                  sp.in_table_c6, sp.in_table_c7, sp.in_table_c8, sp.in_table_c9, sp.in_table_d1, sp.in_table_d2]
        prev = None
        for cp in range(part * (0x110000 // parts), (part + 1) * (0x110000 // parts)):
            if 0xD800 <= cp <= 0xDFFF:
                continue
            ch = chr(cp)
            sig = tuple(t(ch) for t in tables)
            if sig != prev:
                cps.update((cp - 1, cp, cp + 1))
                prev = sig
        cps = {c for c in cps if 0 <= c < 0x110000}
        for _ in range(50000 // parts):
            cps.add(rng.randrange(0x110000))
    n = 0
    for cp in cps:
        if 0xD800 <= cp <= 0xDFFF:
            continue
        ch = chr(cp)
        one(ch, "single")
        n += 1
        if n % 37 == 0:
            one("a" + ch + "b", "embedded")
            one(ch + "1", "prefix")
    run.case(("saslprep", "single-codepoints", part), dict(primitive="saslprep", codepoints_checked=n, shard=part))
    run.count("saslprep_codepoints", n)
    # bidi combinations
    R, L, N, D = "אاش", "abZ", " -.!", "012"
    import itertools
    pool = [R[0], R[1], L[0], L[1], N[0], N[2], D[0], "ª", "­", " "]
    for ln in (2, 3):
        for combo in itertools.product(pool, repeat=ln):
            one("".join(combo), "bidi")
    for _ in range(300):
        one("".join(rng.choice(pool + [R[2], L[2]]) for _ in range(rng.randint(4, 7))), "bidi")
    # characters the mapping step deletes, placed between characters that compose (mapping comes before normalisation)
    for base, mark in (("a", "\u0301"), ("e", "\u0308"), ("\u1100", "\u1161"), ("A", "\u030a"), ("\u05d3", "\u05bc")):
        for gone in ("\u00ad", "\u200c", "\u200d", "\u2060", "\ufeff", "\ufe00", "\u1806", "\u034f"):
            for s_ in (base + gone + mark, base + mark + gone, gone + base + mark, "x" + base + gone + gone + mark + "y"):
                one(s_, "mapped-between-composing")
    run.case(("saslprep", "bidi", part), dict(primitive="saslprep", strings="all sequences of length 2..3 over " + repr(pool)))


def body(run):
    P = 8
    run.parallel("checks.c11", "des", [dict(part=i, parts=P) for i in range(P)], timeout=900 if run.tier == "quick" else 3600)
    run.parallel("checks.c11", "blowfish", [dict(part=i, parts=P) for i in range(P)], timeout=900 if run.tier == "quick" else 3600, env={"PASSLIB_BUILTIN_BCRYPT": "1"})
    run.parallel("checks.c11", "scrypt", [dict(part=i, parts=P) for i in range(P)], timeout=1200 if run.tier == "quick" else 5400)
    run.parallel("checks.c11", "saslprep", [dict(part=i, parts=P) for i in range(P)], timeout=900 if run.tier == "quick" else 3600)
    md4(run)
    hmac_pbkdf(run)
    blowfish_engines(run)
    run.require("blowfish_engine_steps", 30)
    run.require("blowfish_ecb_vectors", 10)
    run.require("des", 4096)
    run.require("bcrypt_core", 30)
    run.require("md4", 300)
    run.require("md4_copy", 100)
    run.require("scrypt", 40)
    run.require("hmac", 60)
    run.require("hmac_incremental_finalize", 200)
    run.require("pbkdf2", 100)
    run.require("saslprep_codepoints", 20000)
    run.extra["exhaustive_subspaces"] = ["DES: all 4096 12-bit salts, every single salt bit of the 24, rounds 1..30", "MD4: every message length 0..300",
                                         "SASLprep: every code point (thorough tier) / every table boundary +-1 (quick tier); all bidi sequences of length 2..3 over a 10-symbol pool"]
    run.assumptions += ["references: vlib/refimpl/des.py (FIPS 46-3 tables, self-tested), bcrypt wheel, vlib/refimpl/md4.py (RFC 1320 vectors), hashlib.scrypt, stdlib hmac, textbook PBKDF in vlib/refimpl/formats.py, vlib/refimpl/saslprep.py over the stdlib stringprep tables"]


if __name__ == "__main__":
    main("C11", "exploration", RULE, body)
