"""C05 - size limits: no silent truncation when forbidden, no oversized passwords.

Byte-level truncation model.  For the truncating hashers, with truncate_error enabled (on the hasher, on a
context-wide option or on a per-scheme context option) hash() must raise PasswordTruncateError exactly when the
*encoded* password is longer than the limit; when it does not raise, the whole password was used.  With
truncate_error disabled exactly the first limit bytes matter.  Every hasher refuses passwords longer than the
library-wide maximum with PasswordSizeError (hash and verify, hasher and context), depends on every byte below
it, and the crypt()-compatible formats refuse NUL at every position."""
from vlib import hashers as H
from vlib.run import main

RULE = ("case = (hasher or context, where the policy is set, password built from 1/2/3/4-byte characters around the "
        "byte limit, text or bytes) -> raise/accept + extension/alteration verifies; or (hasher, length 4095/4096/4097, "
        "text/bytes, hash/verify); or (crypt-compatible hasher, NUL position); distinct = distinct (hasher, policy site, "
        "character width, byte length relative to the limit, form) tuples")

TRUNC = ["des_crypt", "crypt16", "bcrypt", "django_bcrypt", "ldap_bcrypt", "ldap_des_crypt", "django_des_crypt", "lmhash"]
CISCO = ["cisco_pix", "cisco_asa"]
CRYPT_NUL = ["des_crypt", "bsdi_crypt", "md5_crypt", "sha1_crypt", "sha256_crypt", "sha512_crypt", "bcrypt", "apr_md5_crypt", "bigcrypt",
             "ldap_des_crypt", "ldap_bsdi_crypt", "ldap_md5_crypt", "ldap_sha1_crypt", "ldap_sha256_crypt", "ldap_sha512_crypt",
             "ldap_bcrypt", "django_bcrypt", "django_des_crypt"]
CHARS = {1: "a", 2: "é", 3: "€", 4: "\U0001f511"}
CHARS_CP437 = {1: "a", 2: "é"}


def cheap(h):
    kw = {}
    if "rounds" in getattr(h, "setting_kwds", ()):
        kw["rounds"] = H.rounds_values(h, "quick")[0]
    return kw


def select_backend(run, name, backend):
    """-> True if the shard can proceed (backend None = the default one)"""
    if not backend:
        return True
    h = H.get(name)
    try:
        if not h.has_backend(backend):
            run.count("backend_unavailable")
            return False
        h.set_backend(backend)
        run.count(f"under_backend:{backend}")
        return True
    except Exception:
        run.count("backend_unavailable")
        return False


def build(width, nbytes, rng):
    """text whose utf-8 encoding has exactly nbytes bytes, made of `width`-byte characters, padded with ascii
    at a random side so that the limit can fall inside/at/after a character"""
    ch = CHARS[width]
    n, rem = divmod(nbytes, width)
    pad = "".join(rng.choice("bcdfgh") for _ in range(rem))
    body = "".join(ch if i % 2 else CHARS[width] for i in range(n))
    # vary the characters a little so prefixes are distinguishable
    alt = {1: "z", 2: "ü", 3: "中", 4: "\U0001f600"}[width]
    body = "".join(ch if rng.random() < 0.6 else alt for _ in range(n))
    return pad + body if rng.random() < 0.5 else body + pad


def trunc_cases(run, name, backend=None, ident=None):
    import passlib.exc as X
    if not select_backend(run, name, backend):
        return
    if ident is None and H.base_name(H.get(name)) == "bcrypt" and name == "bcrypt":
        # every ident the hasher can write (the legacy $2$ layout is emulated by repeating the password first)
        for ident_ in (("2", "2b") if (run.tier == "quick" or backend == "builtin") else ("2", "2a", "2y", "2b")):
            trunc_cases(run, name, backend, ident_)
            run.count(f"bcrypt_ident:{ident_}")
        return
    from passlib.context import CryptContext
    rng = run.rng("trunc:" + name + (ident or ""))
    h = H.get(name)
    limit = h.truncate_size
    kw = cheap(h)
    sites = {
        "hasher.using": (lambda te: h.using(truncate_error=te, **kw), None),
        "context-wide": (lambda te: CryptContext(schemes=[name], truncate_error=te, **{f"{name}__{k}": v for k, v in kw.items()}), "ctx"),
        "context-scheme": (lambda te: CryptContext(schemes=[name, "md5_crypt"], **{f"{name}__truncate_error": te}, **{f"{name}__{k}": v for k, v in kw.items()}), "ctx"),
        "context-string": (lambda te: CryptContext(schemes=[name], truncate_error="true" if te else "false", **{f"{name}__{k}": v for k, v in kw.items()}), "ctx"),
    }
    # the policy set twice: the later setting decides (a copy of a strict copy can be lax again, and the reverse)
    sites["hasher.using-twice"] = (lambda te: h.using(truncate_error=not te).using(truncate_error=te, **kw), None)
    sites["hasher.using-twice-string"] = (lambda te: h.using(truncate_error=not te, **kw).using(truncate_error="true" if te else "false"), None)
    sites["context-over-configured-hasher"] = (lambda te: CryptContext(schemes=[h.using(truncate_error=not te, **kw)], truncate_error=te), "ctx")
    widths = [1, 2] if name == "lmhash" else [1, 2, 3, 4]
    deltas = [-1, 0, 1, 2, 3, 9, 450] if run.tier == "quick" else [-3, -2, -1, 0, 1, 2, 3, 4, 7, 9, 30, 450, 1000]
    if name == "lmhash" or "cisco" in name:
        deltas = [d for d in deltas if d < 100]
    if ident:
        kw = dict(kw, ident=ident)
    if backend == "builtin" and "bcrypt" in name:
        # pure-python bcrypt costs about 0.3 s per hash: one site, two character widths, the deltas next to the limit
        sites = {k_: v_ for k_, v_ in sites.items() if k_ == "hasher.using"}
        widths = [1, 3]
        deltas = [-1, 0, 1, 2]
    for site, (mk, kind) in sites.items():
        for te in (True, False):
            try:
                obj = mk(te)
            except Exception as e:
                run.violation(f"C05|{name}|{site}|construct|{type(e).__name__}", f"{name}: truncate_error={te} via {site} refused: {e}", dict(name=name, site=site))
                continue
            for width in widths:
                for d in deltas:
                    text = build(width, limit + d, rng)
                    enc = "utf-8"
                    if name == "lmhash":
                        # lmhash works on its OEM code page: 2-"byte" class = non-ASCII characters (1 byte each in cp437)
                        enc = "cp437"
                        text = "".join(rng.choice("éüÇ" if width == 2 else "ABCXYZ") for _ in range(limit + d))
                    raw = text.encode(enc)
                    for form, pw in (("text", text), ("bytes", raw)):
                        if name == "lmhash" and form == "bytes" and width == 2:
                            continue  # bytes given to lmhash are taken as already encoded and upper-cased ASCII-only
                        nb = len(raw)
                        w = dict(hasher=name, site=site, truncate_error=te, password=pw, encoded_len=nb, limit=limit)
                        rp = f"import warnings; warnings.simplefilter('ignore')\nimport passlib.hash as H\nfrom passlib.context import CryptContext\n" + \
                             (f"o=H.{name}.using(truncate_error={te!r}, **{kw!r})\n" if kind is None else f"# policy set via {site}\n") + f"# password {pw!r} ({nb} bytes, limit {limit})"
                        try:
                            hs = obj.hash(pw)
                            raised = None
                        except X.PasswordTruncateError:
                            raised = "PasswordTruncateError"
                        except Exception as e:
                            raised = type(e).__name__
                        rel = "below" if nb < limit else "at" if nb == limit else "above"
                        run.case((name, site, te, width, rel, form), w)
                        run.count(f"trunc:{name}")
                        run.count(f"site:{site}")
                        if te:
                            if nb > limit and raised != "PasswordTruncateError":
                                run.violation(f"C05|{name}|truncate_error-not-raised|{site}|{'text-multibyte' if (form == 'text' and width > 1) else form}",
                                              f"{name}: truncate_error=True ({site}) but a {nb}-byte password ({form}, {width}-byte chars; limit {limit}) "
                                              + (f"raised {raised}" if raised else "was hashed, silently truncated"), w, rp)
                            elif nb <= limit and raised:
                                run.violation(f"C05|{name}|truncate_error-spurious|{site}|{form}",
                                              f"{name}: {nb}-byte password (limit {limit}) refused with {raised}", w, rp)
                            if raised is None and nb < limit:
                                vfy = obj.verify if kind else h.verify
                                for ext in (raw + b"x", raw + b"xyz"):
                                    if vfy(ext, hs):
                                        run.violation(f"C05|{name}|extension-verifies", f"{name}: an extension of a password below the limit verifies", dict(w, ext=ext))
                        else:
                            if raised:
                                run.violation(f"C05|{name}|truncate_error-off-raises|{site}|{raised}", f"{name}: truncate_error=False but hash raised {raised}", w, rp)
                                continue
                            vfy = obj.verify if kind else h.verify
                            sig = raw[:limit]
                            try:
                                checks = [("prefix-only", sig, True)]
                                if nb >= limit:
                                    checks.append(("prefix+junk", sig + b"JUNK", True))
                                if nb > limit:
                                    checks.append(("tail-changed", raw[:-1] + (bytes([raw[-1] ^ 1 or 2]) if name != "lmhash" else (b"1" if raw[-1:] != b"1" else b"2")), True))
                                k = rng.randrange(min(nb, limit)) if nb else None
                                if k is not None:
                                    alt = bytearray(sig)
                                    alt[k] = (alt[k] ^ 0x15) or 0x15
                                    if name == "lmhash":
                                        alt[k] = 0x31 if sig[k] != 0x31 else 0x32
                                    checks.append(("byte-in-prefix-changed", bytes(alt) + raw[limit:], False))
                                    if nb >= limit:
                                        alt2 = bytearray(sig)
                                        alt2[limit - 1] = (alt2[limit - 1] ^ 0x15) or 0x15
                                        if name == "lmhash":
                                            alt2[limit - 1] = 0x31 if sig[limit - 1] != 0x31 else 0x32
                                        checks.append(("last-significant-byte-changed", bytes(alt2) + raw[limit:], False))
                                    if nb > limit and (sig[-1] & 0x7F):   # (a dropped byte whose low 7 bits are 0 equals the NUL padding of the DES formats)
                                        checks.append(("shorter-than-limit", sig[:-1], False))
                                if name != "lmhash" and width > 1 and nb >= limit:
                                    # a whole character changed at the limit (the probe stays valid text, which some backends need):
                                    # the character holding byte limit-1 is replaced by another of the same width
                                    off = 0
                                    for ci, chh in enumerate(text):
                                        wch = len(chh.encode("utf-8"))
                                        if off <= limit - 1 < off + wch:
                                            for repl in ("z", "é", "ü", "€", "中", "\U0001f600", "\U0001f601", "q", "ö", "日"):
                                                if len(repl.encode("utf-8")) == wch and repl != chh:
                                                    alt_raw = (text[:ci] + repl + text[ci + 1:]).encode("utf-8")
                                                    checks.append(("character-at-limit-changed", alt_raw, alt_raw[:limit] == raw[:limit]))
                                            break
                                        off += wch
                                if ident == "2":
                                    # the legacy $2$ layout cycles a short key up to 72 bytes (documented equivalence): expectations follow that rule
                                    from vlib.equiv import canon
                                    checks = [(lab, pr, canon("bcrypt", pr, None, "$2$") == canon("bcrypt", raw, None, "$2$")) for lab, pr, _ in checks]
                                for label, probe, expect in checks:
                                    if name == "lmhash":
                                        try:
                                            probe = probe.decode("cp437")   # lmhash folds case on text only
                                        except UnicodeError:
                                            continue
                                    try:
                                        got = vfy(probe, hs, **({"encoding": "cp437"} if name == "lmhash" and kind is None else {}))
                                    except X.PasswordValueError:
                                        if backend == "os_crypt" and "bcrypt" in name and not H.is_utf8(probe):
                                            run.count("os_crypt_non_utf8_probe_refused")   # bcrypt's os_crypt backend refuses non-UTF-8 bytes (finding of C03); not a truncation question
                                            continue
                                        raise
                                    run.trivial()
                                    if got is not expect:
                                        run.violation(f"C05|{name}|limit-bytes|{label}|expected-{expect}",
                                                      f"{name}: truncate_error=False, {nb}-byte password ({width}-byte chars, {form}): verify({label}) is {got!r}; exactly the first {limit} BYTES must matter",
                                                      dict(w, probe=probe, label=label, hash=hs))
                            except Exception as e:
                                run.violation(f"C05|{name}|verify-raises|{type(e).__name__}", f"{name}: verify raised {type(e).__name__}: {str(e)[:80]}", w)


def cisco_cases(run, name):
    import passlib.exc as X
    rng = run.rng("cisco:" + name)
    h = H.get(name)
    limit = h.truncate_size
    for width in (1, 2, 3, 4):
        for d in (-1, 0, 1, 2, 5):
            for user in ("", "user", "ab"):
                text = build(width, limit + d, rng)
                raw = text.encode()
                for form, pw in (("text", text), ("bytes", raw)):
                    w = dict(hasher=name, password=pw, user=user, encoded_len=len(raw), limit=limit)
                    try:
                        hs = h.hash(pw, user=user)
                        raised = None
                    except X.PasswordSizeError:
                        raised = "PasswordSizeError"
                    except Exception as e:
                        raised = type(e).__name__
                    rel = "below" if len(raw) < limit else "at" if len(raw) == limit else "above"
                    run.case((name, "size-limit", width, rel, form, bool(user)), w)
                    run.count(f"trunc:{name}")
                    if len(raw) > limit:
                        if raised != "PasswordSizeError":
                            run.violation(f"C05|{name}|oversize-accepted|{'text-multibyte' if (form == 'text' and width > 1) else form}",
                                          f"{name}: {len(raw)}-byte password (limit {limit} bytes; {width}-byte chars, {form}) " + (f"raised {raised}" if raised else "was hashed"), w)
                        # verify side: an oversized password never verifies against the hash of its first limit bytes
                        try:
                            hs2 = h.hash(raw[:limit], user=user)
                            if h.verify(pw, hs2, user=user) is not False:
                                run.violation(f"C05|{name}|oversize-verifies|{'text-multibyte' if (form == 'text' and width > 1) else form}",
                                              f"{name}: an oversized password verifies against the hash of its first {limit} bytes", dict(w, hash=hs2))
                        except UnicodeError:
                            pass
                    elif raised:
                        run.violation(f"C05|{name}|within-limit-refused|{raised}", f"{name}: {len(raw)}-byte password refused ({raised})", w)


def max_size(run, names):
    import passlib.exc as X
    from passlib.context import CryptContext
    for name in names:
        rng = run.rng("max:" + name)
        h = H.get(name)
        if not H.usable(name):
            continue
        bname = H.base_name(h)
        hh = H.apply(h, cheap(h))
        ctx = H.ctx_for(h, rng, simple=True)
        for ln in (4095, 4096, 4097, 5000):
            base = H.pw_bytes(rng, ln, "ascii")
            for form, pw in (("bytes", base), ("text", base.decode())):
                w = dict(hasher=name, length=ln, form=form)
                try:
                    hs = hh.hash(pw, **ctx)
                    raised = None
                except X.PasswordSizeError as e:
                    raised = "PasswordSizeError"
                    mx = getattr(e, "max_size", None)
                except Exception as e:
                    raised = type(e).__name__
                run.case((name, "max", ln, form), w)
                run.count(f"max:{name}")
                if bname in ("cisco_pix", "cisco_asa"):
                    if raised != "PasswordSizeError":
                        run.violation(f"C05|{name}|oversize-accepted|{form}", f"{name}: {ln}-byte password: {raised or 'hashed'}", w)
                    continue
                if ln > 4096:
                    if raised != "PasswordSizeError":
                        run.violation(f"C05|{name}|max-size-not-enforced|hash|{form}", f"{name}: hash() of a {ln}-byte password: " + (f"raised {raised}" if raised else "accepted"), w,
                                      repro=f"import passlib.hash as H\nH.{name}.hash('x'*{ln})")
                else:
                    if raised:
                        run.violation(f"C05|{name}|within-max-refused|{raised}", f"{name}: hash() of a {ln}-byte password (max 4096) raised {raised}", w)
                        continue
                    # every byte matters (hashes without a limit) ...
                    trunc = getattr(h, "truncate_size", None)
                    if name in H.DISABLED:
                        continue
                    ok = h.verify(pw, hs, **ctx)
                    if ok is not True:
                        run.violation(f"C05|{name}|long-password-not-verified", f"{name}: {ln}-byte password does not verify", w)
                    if not trunc:
                        for k in (0, ln // 2, ln - 1):
                            alt = bytearray(base)
                            alt[k] = 0x31 if base[k] != 0x31 else 0x32
                            if bname == "mysql323" and False:
                                pass
                            if h.verify(bytes(alt), hs, **ctx) is not False:
                                run.violation(f"C05|{name}|byte-ignored|pos-{'last' if k == ln - 1 else 'first' if k == 0 else 'middle'}",
                                              f"{name}: changing byte {k} of a {ln}-byte password still verifies (no documented limit)", dict(w, pos=k))
                            run.trivial()
            # verify() side of the maximum
            if ln > 4096 and name not in H.DISABLED:
                try:
                    hs = hh.hash("x", **ctx)
                    try:
                        r = h.verify(base, hs, **ctx)
                        run.violation(f"C05|{name}|max-size-not-enforced|verify", f"{name}: verify() of a {ln}-byte password returned {r!r} instead of raising PasswordSizeError", dict(hasher=name, length=ln))
                    except X.PasswordSizeError:
                        pass
                except Exception:
                    pass
    # through a context
    for scheme in ("sha256_crypt", "md5_crypt", "pbkdf2_sha256", "bcrypt", "des_crypt", "plaintext"):
        if scheme not in names:
            continue
        h = H.get(scheme)
        c = CryptContext(schemes=[scheme], **{f"{scheme}__{k}": v for k, v in cheap(h).items()})
        good = c.hash("x")
        for ln, expect in ((4096, False), (4097, True)):
            pw = "y" * ln
            for op in ("hash", "verify", "verify_and_update"):
                try:
                    getattr(c, op)(*((pw,) if op == "hash" else (pw, good)))
                    raised = False
                except X.PasswordSizeError:
                    raised = True
                except Exception as e:
                    raised = type(e).__name__
                run.case(("context", scheme, op, ln), dict(context_scheme=scheme, op=op, length=ln, raised=raised))
                if raised is not expect:
                    run.violation(f"C05|context|{op}|max-size|expected-raise-{expect}", f"CryptContext.{op} with a {ln}-byte password: raised={raised}", dict(scheme=scheme, op=op, length=ln))


def nul_cases(run, names, backend=None):
    for name in names:
        rng = run.rng("nul:" + name)
        h = H.get(name)
        if not H.usable(name):
            continue
        if backend and (backend not in getattr(h, "backends", ()) or not select_backend(run, name, backend)):
            continue
        hh = H.apply(h, cheap(h))
        body = H.pw_bytes(rng, 130, "ascii")
        # positions in a short password, and around / beyond the truncation limit of the truncating formats (a NUL in the ignored tail is still a NUL)
        positions = list(range(0, 21, 1 if run.tier == "thorough" else 2)) + [55, 56, 63, 64, 70, 71, 72, 73, 74, 80, 100, 127, 128, 129]
        for pos in positions:
            for total in (pos + 1, 21 if pos < 21 else 130):
                raw = body[:pos] + b"\x00" + body[pos + 1:total]
                for form, pw in (("bytes", raw), ("text", raw.decode())):
                    w = dict(hasher=name, password=pw, nul_at=pos)
                    try:
                        hs = hh.hash(pw)
                        raised = None
                    except ValueError as e:
                        raised = type(e).__name__
                    except Exception as e:
                        raised = "!" + type(e).__name__
                    run.case((name, "nul", pos, total == pos + 1, form), w)
                    run.count("nul_cases")
                    if raised and raised.startswith("!"):
                        run.violation(f"C05|{name}|nul|internal-error|{raised[1:]}", f"{name}: NUL password raised {raised[1:]}", w)
                    elif raised is None:
                        ends_there = pos > 0 and h.verify(raw[:pos], hs)
                        run.violation(f"C05|{name}|nul-accepted|{'password-ends-at-NUL' if ends_there else 'hashed'}",
                                      f"{name} (crypt()-compatible) accepted a password with NUL at {pos}" + (" and the part before the NUL verifies" if ends_there else ""), dict(w, hash=hs),
                                      repro=f"import passlib.hash as H\nprint(H.{name}.hash({pw!r}))")


def nul_verify(run, names, backend=None):
    """a password containing NUL is refused on the verify path as well (hasher and context), never compared"""
    from passlib.context import CryptContext
    for name in names:
        rng = run.rng("nulv:" + name)
        h = H.get(name)
        if not H.usable(name):
            continue
        if backend and (backend not in getattr(h, "backends", ()) or not select_backend(run, name, backend)):
            continue
        hh = H.apply(h, cheap(h))
        good = hh.hash("pass")
        ctx = CryptContext(schemes=[name], **{f"{name}__{k}": v for k, v in cheap(h).items()})
        for pw in ("pass\x00junk", b"pass\x00", "\x00pass", b"pa\x00ss", "pass\x00"):
            for who, fn in (("hasher.verify", lambda: h.verify(pw, good)), ("context.verify", lambda: ctx.verify(pw, good)), ("context.verify_and_update", lambda: ctx.verify_and_update(pw, good))):
                try:
                    r = fn()
                    raised = None
                except ValueError:
                    raised = "ValueError"
                except Exception as e:
                    raised = type(e).__name__
                run.case((name, "nul-verify", who, isinstance(pw, bytes)), dict(hasher=name, password=pw, call=who, raised=raised))
                run.count("nul_verify_cases")
                if raised != "ValueError":
                    run.violation(f"C05|{name}|nul-on-verify-path|{'accepted' if raised is None else raised}",
                                  f"{name}: {who} of a password containing NUL " + (f"returned {r!r}" if raised is None else f"raised {raised}") + " instead of refusing it (PasswordValueError)",
                                  dict(hasher=name, password=pw, call=who),
                                  repro=f"import passlib.hash as H\nh=H.{name}\nprint(h.verify({pw!r}, {good!r}))")


def body(run):
    shards = [("trunc_cases", dict(name=n)) for n in TRUNC] + [("cisco_cases", dict(name=n)) for n in CISCO]
    names = H.names()
    shards += [("max_size", dict(names=names[i::6])) for i in range(6)]
    shards += [("nul_cases", dict(names=CRYPT_NUL[i::3])) for i in range(3)]
    shards += [("nul_verify", dict(names=CRYPT_NUL[i::3])) for i in range(3)]
    # the same under every other backend of the multi-backend formats (the OS crypt() and the pure-python code cut and
    # scan the password themselves)
    for b in ("os_crypt", "builtin"):
        shards += [("trunc_cases", dict(name=n, backend=b)) for n in TRUNC if b in getattr(H.get(n), "backends", ())
                   and not (b == "builtin" and "bcrypt" in n and (run.tier == "quick" or n != "bcrypt"))]      # (pure-python bcrypt: ~0.3 s per hash)
        shards += [("nul_cases", dict(names=CRYPT_NUL[i::3], backend=b)) for i in range(3)]
        shards += [("nul_verify", dict(names=CRYPT_NUL[i::3], backend=b)) for i in range(3)]
    by = {}
    for f, a in shards:
        by.setdefault(f, []).append(a)
    for f, al in by.items():
        run.parallel("checks.c05", f, al, timeout=900 if run.tier == "quick" else 3600, env={"PASSLIB_BUILTIN_BCRYPT": "1"})
    run.require("under_backend:os_crypt", 4)
    run.require("under_backend:builtin", 4)
    for n in TRUNC + CISCO:
        run.require(f"trunc:{n}", 20)
    for s in ("hasher.using", "context-wide", "context-scheme"):
        run.require(f"site:{s}", 50)
    run.require("nul_cases", 200)
    run.require("nul_verify_cases", 100)
    for n in names:
        if H.usable(n):
            run.require(f"max:{n}", 4)
    run.assumptions += ["the limit is counted in bytes of the encoded secret (utf-8; lmhash: its OEM code page, single-byte)",
                        "the library-wide maximum is probed with ASCII passwords, where characters and bytes coincide; multi-byte text at that boundary is not judged",
                        "crypt()-compatible formats = " + ", ".join(CRYPT_NUL)]


if __name__ == "__main__":
    main("C05", "exploration", RULE, body)
