"""C06 - generated salts, keys and passwords are uniform over their declared space.

Monitors with a controlled random source (the library's own injection points: `rng=` parameters and the
module-level `rng` objects):
 1. exhaustive: every value the source can return for the draws a helper makes is fed once; the outputs must be
    exactly the declared space, each element equally often (bijection for single draws);
 2. statistical (seeded Mersenne source): per-position chi-square, all pairwise bit correlations within a value and
    between consecutive values, thresholds at >= 8 sigma (false-alarm probability < 1e-9 per run);
 3. wiring: salts parsed from hash() of every salted hasher, TOTP keys, generated secrets/passwords/phrases have the
    declared size and alphabet and the source was asked for at least the declared entropy;
 4. a CryptContext refuses `salt` under every configuration key.
"""
import math
import collections

from vlib import hashers as H
from vlib import rngsrc as R
from vlib.run import main

RULE = ("case = one helper call under a controlled source (exhaustive sub-check: one complete enumeration of the source "
        "values for a (helper, size, alphabet) triple) or one statistical test over N generated values; distinct = distinct "
        "(helper/hasher, size, alphabet size, test kind) tuples")

ALPHABETS = {2: "01", 3: "abc", 5: "vwxyz", 10: "0123456789", 16: "0123456789abcdef", 26: "abcdefghijklmnopqrstuvwxyz",
             52: "2346789ABCDEFGHJKMNPQRTUVWXYZabcdefghjkmnpqrstuvwxyz",
             62: "abcdefghijklmnopqrstuvwxyzABCDEFGHIJKLMNOPQRSTUVWXYZ0123456789",
             64: "./0123456789ABCDEFGHIJKLMNOPQRSTUVWXYZabcdefghijklmnopqrstuvwxyz",
             94: "".join(chr(c) for c in range(33, 127))}
Z = 8.0   # sigma threshold of every statistical monitor


# ------------------------------------------------------------------------------------------ 1. exhaustive
def exhaustive(run):
    from passlib.utils import getrandbytes, getrandstr
    bound = 1 << (16 if run.tier == "quick" else 20)
    # bytes
    for n in (1, 2) if run.tier == "quick" else (1, 2):
        check_space(run, f"getrandbytes|n={n}", lambda s, n=n: getrandbytes(s, n), bound, 256 ** n, lambda o, n=n: isinstance(o, bytes) and len(o) == n)
    if run.tier == "thorough":
        # 20 bits: the source is asked for 24 bits for 3 bytes, which is beyond the bound; sample the top/bottom planes instead
        pass
    for L, chars in ALPHABETS.items():
        c = 1
        while L ** c <= bound:
            for form, cs in (("text", chars), ("bytes", chars.encode("ascii"))):
                check_space(run, f"getrandstr|L={L}|count={c}|{form}", lambda s, cs=cs, c=c: getrandstr(s, cs, c), bound, L ** c,
                            lambda o, cs=cs, c=c: type(o) is type(cs) and len(o) == c and all(x in cs for x in o))
            c += 1
    run.exhaustive = True
    # libpass salt helper draws per character through secrets.choice
    try:
        import libpass._salt as LS

        class Shim:
            def __init__(self, src):
                self.src = src

            def choice(self, seq):
                return self.src.choice(seq)
        orig = LS.secrets
        try:
            for L, c in ((2, 8), (10, 3), (62, 2)):
                chars = ALPHABETS[L]

                def fn(s, chars=chars, c=c):
                    LS.secrets = Shim(s)
                    return LS.generate_salt(c, chars)
                check_space(run, f"libpass.generate_salt|L={L}|count={c}", fn, bound, L ** c, lambda o, chars=chars, c=c: len(o) == c and all(x in chars for x in o))
        finally:
            LS.secrets = orig
    except Exception as e:
        run.note(f"libpass._salt exhaustive check not possible: {e}")


def check_space(run, label, fn, bound, declared, valid):
    try:
        reqs, outs = R.enumerate_outputs(fn, bound)
    except R.Unsupported as e:
        run.note(f"{label}: draw pattern not enumerable ({e})")
        return
    if outs is None:
        return
    run.case((label, "exhaustive"), dict(helper=label, source_requests=reqs, outputs=len(outs), declared_space=declared, sample_output=repr(outs[len(outs) // 3])))
    run.count("exhaustive_enumerations")
    run.count("exhaustive_outputs", len(outs))
    bad = [o for o in outs if not valid(o)]
    cnt = collections.Counter(outs)
    w = dict(helper=label, source_requests=reqs, outputs=len(outs), distinct_outputs=len(cnt), declared_space=declared)
    if bad:
        run.violation(f"C06|{label.split('|')[0]}|wrong-size-or-alphabet", f"{label}: output outside the declared size/alphabet: {bad[0]!r}", w)
    if len(cnt) != declared or len(set(cnt.values())) != 1:
        run.violation(f"C06|{label.split('|')[0]}|not-uniform-over-declared-space",
                      f"{label}: feeding every source value once gives {len(cnt)} distinct outputs of {declared} declared "
                      f"(multiplicities {sorted(set(cnt.values()))[:4]}): not every value is reachable with equal probability", w,
                      repro="from passlib.utils import getrandbytes\nclass S:\n def __init__(s,v): s.v=v\n def getrandbits(s,k): return s.v\n"
                            "print(len({getrandbytes(S(v),2) for v in range(65536)}), 'distinct 2-byte outputs of 65536')")


# ------------------------------------------------------------------------------------------ 2. statistical
def bit_columns(values, nbits):
    """column i = integer whose bit k is bit i of sample k"""
    cols = [0] * nbits
    for k, v in enumerate(values):
        iv = int.from_bytes(v, "big")
        i = 0
        while iv:
            if iv & 1:
                cols[i] |= 1 << k
            iv >>= 1
            i += 1
    return cols


def stat_bytes(run, label, values, n):
    """values: list of n-byte strings"""
    N = len(values)
    nb = 8 * n
    cols = bit_columns(values, nb)
    thr = Z * math.sqrt(N) / 2
    worst = 0
    # single-bit balance
    for i, c in enumerate(cols):
        d = abs(c.bit_count() - N / 2)
        worst = max(worst, d)
        if d > thr:
            run.violation(f"C06|{label.split('|')[0]}|bit-bias", f"{label}: bit {i} is set in {c.bit_count()} of {N} values", dict(label=label, bit=i))
            return
    # pairwise within a value
    pairs = 0
    for i in range(nb):
        ci = cols[i]
        for j in range(i + 1, nb):
            agree = N - (ci ^ cols[j]).bit_count()
            pairs += 1
            if abs(agree - N / 2) > thr:
                run.violation(f"C06|{label.split('|')[0]}|bits-correlated-within-value",
                              f"{label}: bits {i} and {j} of one generated value agree in {agree} of {N} samples (independent bits: {N // 2} +/- {int(thr)})",
                              dict(label=label, bits=[i, j], agree=agree, N=N))
                return
    # between consecutive values (lag 1): same-position bits and a diagonal band
    mask = (1 << (N - 1)) - 1
    lag_pairs = 0
    for i in range(nb):
        ci = cols[i] & mask
        for j in range(nb) if nb <= 128 else (i, (i + 1) % nb, (i + 8) % nb, (i + 3) % nb):
            agree = (N - 1) - (ci ^ (cols[j] >> 1)).bit_count()
            lag_pairs += 1
            if abs(agree - (N - 1) / 2) > thr:
                run.violation(f"C06|{label.split('|')[0]}|consecutive-values-correlated",
                              f"{label}: bit {i} of one value and bit {j} of the next agree in {agree} of {N - 1}", dict(label=label, bits=[i, j]))
                return
    # per-position byte chi-square
    for p in range(n):
        cnt = collections.Counter(v[p] for v in values)
        e = N / 256
        chi = sum((cnt.get(b, 0) - e) ** 2 / e for b in range(256))
        if chi > 255 + Z * math.sqrt(2 * 255):
            run.violation(f"C06|{label.split('|')[0]}|byte-distribution", f"{label}: chi-square {chi:.0f} at position {p}", dict(label=label, pos=p, chi=chi))
            return
    run.case((label, "stat-bytes"), dict(test=label, samples=N, bit_pairs=pairs, lag_pairs=lag_pairs, worst_single_bit_deviation=worst, threshold=thr))
    run.count("bit_pairs_tested", pairs + lag_pairs)


def stat_symbols(run, label, values, chars, size):
    """values: strings over `chars` of length `size`"""
    N = len(values)
    L = len(chars)
    idx = {c: i for i, c in enumerate(chars)}
    # per position chi-square
    for p in range(size):
        cnt = collections.Counter(v[p] for v in values)
        e = N / L
        chi = sum((cnt.get(c, 0) - e) ** 2 / e for c in chars)
        if e >= 5 and chi > (L - 1) + Z * math.sqrt(2 * (L - 1)) + 10:
            run.violation(f"C06|{label.split('|')[0]}|symbol-distribution", f"{label}: chi-square {chi:.0f} (dof {L - 1}) at position {p}", dict(label=label, pos=p))
            return
    # pooled: every symbol appears, pooled chi-square
    pooled = collections.Counter()
    for v in values:
        pooled.update(v)
    tot = N * size
    e = tot / L
    chi = sum((pooled.get(c, 0) - e) ** 2 / e for c in chars)
    if chi > (L - 1) + Z * math.sqrt(2 * (L - 1)) + 10:
        run.violation(f"C06|{label.split('|')[0]}|symbol-distribution", f"{label}: pooled chi-square {chi:.0f} (dof {L - 1}); counts min {min(pooled.get(c, 0) for c in chars)} max {max(pooled.values())} expected {e:.0f}",
                      dict(label=label, missing=[c for c in chars if c not in pooled][:5]))
        return
    # pairwise position equality rate
    pairs = 0
    for i in range(size):
        for j in range(i + 1, size):
            eq = sum(1 for v in values if v[i] == v[j])
            p = 1 / L
            sd = math.sqrt(N * p * (1 - p))
            pairs += 1
            if abs(eq - N * p) > Z * sd + 3:
                run.violation(f"C06|{label.split('|')[0]}|positions-correlated", f"{label}: positions {i} and {j} are equal in {eq} of {N} values (expected {N * p:.0f})", dict(label=label))
                return
    # consecutive values: same position equality
    for i in range(size):
        eq = sum(1 for a, b in zip(values, values[1:]) if a[i] == b[i])
        p = 1 / L
        sd = math.sqrt((N - 1) * p * (1 - p))
        if abs(eq - (N - 1) * p) > Z * sd + 3:
            run.violation(f"C06|{label.split('|')[0]}|consecutive-values-correlated", f"{label}: position {i} repeats between consecutive values {eq} of {N - 1} times", dict(label=label))
            return
    run.case((label, "stat-symbols"), dict(test=label, samples=N, alphabet=L, size=size, position_pairs=pairs, pooled_chi_square=round(chi, 1)))
    run.count("symbol_tests")


def statistical(run):
    from passlib.utils import getrandbytes, getrandstr
    import random
    N = 20000 if run.tier == "quick" else 40000
    sizes = [4, 8, 16, 20, 32, 64] if run.tier == "quick" else [4, 5, 8, 12, 16, 20, 24, 32, 48, 64]
    for n in sizes:
        src = random.Random(f"{run.seed}:bytes:{n}")
        vals = [getrandbytes(src, n) for _ in range(N)]
        if any(len(v) != n for v in vals):
            run.violation("C06|getrandbytes|wrong-size-or-alphabet", f"getrandbytes size {n}: wrong length", {})
        stat_bytes(run, f"getrandbytes|n={n}", vals, n)
    M = 8000 if run.tier == "quick" else 30000
    for L in (2, 10, 16, 52, 62, 64, 94):
        for size in (4, 8, 22) if run.tier == "quick" else (4, 8, 16, 22, 43, 64):
            src = random.Random(f"{run.seed}:str:{L}:{size}")
            chars = ALPHABETS[L]
            vals = [getrandstr(src, chars, size) for _ in range(M)]
            if any(len(v) != size or any(c not in chars for c in v) for v in vals):
                run.violation("C06|getrandstr|wrong-size-or-alphabet", f"getrandstr L={L} size={size}: wrong length/alphabet", {})
            stat_symbols(run, f"getrandstr|L={L}|size={size}", vals, chars, size)


# ------------------------------------------------------------------------------------------ 3. wiring
def salts(run, names):
    import passlib.utils.handlers as UH
    for name in names:
        h = H.get(name)
        if "salt" not in getattr(h, "setting_kwds", ()) or not H.usable(name) or H.base_name(h) == "cisco_type7":
            continue
        rng = run.rng("salts:" + name)
        N = 150 if run.tier == "quick" else 1200
        kw = {}
        if "rounds" in h.setting_kwds:
            kw["rounds"] = H.rounds_values(h, "quick")[0]
        sizes = [None]
        if "salt_size" in h.setting_kwds:
            lo, hi = h.min_salt_size, h.max_salt_size
            sizes += sorted({max(lo, 1), h.default_salt_size, min(hi or 30, 30)})
        for ssz in sizes:
            kk = dict(kw)
            if ssz is not None:
                kk["salt_size"] = ssz
            try:
                hh = h.using(**kk) if kk else h
            except ValueError:
                continue
            want = ssz if ssz is not None else h.default_salt_size
            src = R.RecordingSource(f"{run.seed}:{name}:{ssz}")
            undo, touched = R.install(src)
            vals = []
            try:
                for i in range(N):
                    before = src.bits
                    hs = hh.hash("pw")
                    used = src.bits - before
                    salt = h.from_string(hs).salt if not hasattr(h, "wrapped") else h.wrapped.from_string(h._unwrap_hash(hs)).salt
                    vals.append((salt, used))
            except Exception as e:
                undo()
                run.violation(f"C06|{name}|salt-harness|{type(e).__name__}", f"{name}: could not read salt back: {e}", dict(name=name))
                continue
            undo()
            raw = getattr(h, "_salt_is_bytes", False)
            chars = None if raw else h.default_salt_chars
            per = 8 if raw else math.log2(len(chars))
            declared_bits = want * per
            if H.base_name(h) in ("bcrypt", "bcrypt_sha256", "django_bcrypt_sha256") :
                declared_bits = 128
            w = dict(hasher=name, salt_size=want, samples=N, declared_bits=declared_bits, example=repr(vals[0][0]), source_bits_per_hash=vals[0][1])
            bad = [s for s, _ in vals if len(s) != want or (chars is not None and any(c not in chars for c in s))]
            if bad:
                run.violation(f"C06|{name}|salt-wrong-size-or-alphabet", f"{name}: generated salt {bad[0]!r} is not {want} symbols of the declared alphabet", w)
            low = [u for _, u in vals if u + 1e-6 < declared_bits]
            if low:
                run.violation(f"C06|{name}|salt-entropy-short", f"{name}: hash() asked the random source for {low[0]:.0f} bits, declared salt space is {declared_bits:.0f} bits", w)
            if len({s for s, _ in vals}) < N * (0.98 if declared_bits >= 24 else 0.0):
                run.violation(f"C06|{name}|salt-repeats", f"{name}: only {len({s for s, _ in vals})} distinct salts in {N} hashes", w)
            # pooled symbol uniformity
            if want:
                pooled = collections.Counter()
                for s, _ in vals:
                    pooled.update(s)
                space = range(256) if raw else chars
                if H.base_name(h) in ("bcrypt", "bcrypt_sha256", "django_bcrypt_sha256"):
                    pooled = collections.Counter()
                    for s, _ in vals:
                        pooled.update(s[:21])
                tot = sum(pooled.values())
                L = len(space)
                e = tot / L
                chi = sum((pooled.get(c, 0) - e) ** 2 / e for c in space)
                if e >= 5 and chi > (L - 1) + Z * math.sqrt(2 * (L - 1)) + 10:
                    run.violation(f"C06|{name}|salt-symbol-distribution", f"{name}: pooled chi-square of salt symbols {chi:.0f} (dof {L - 1})", w)
            run.case((name, "salt", want), w)
            run.count(f"salts:{name}")


def application_hasher(run):
    """an application-defined hasher may declare a narrower alphabet for generated salts than for accepted ones
    (default_salt_chars a subset of salt_chars): generated salts stay inside the narrower one and use all of it"""
    import passlib.hash as PH

    class narrow_md5(PH.md5_crypt):
        name = "narrow_md5"
        default_salt_chars = "abcd"

    for cls, extract in ((narrow_md5, lambda hs: hs.split("$")[2]),):
        seen = {}
        for _ in range(400):
            for c in extract(cls.hash("pw")):
                seen[c] = seen.get(c, 0) + 1
        run.case(("application-hasher", cls.name), dict(hasher=cls.name, declared_default_alphabet=cls.default_salt_chars, symbols_seen="".join(sorted(seen))))
        run.count("application_hasher_salts", 400)
        if set(seen) != set(cls.default_salt_chars):
            run.violation("C06|application-hasher|generated-salt-outside-default_salt_chars", f"{cls.name}: generated salts use the symbols {''.join(sorted(seen))!r}, the declared alphabet for generated salts is {cls.default_salt_chars!r}",
                          dict(hasher=cls.name, seen=seen))


def other_generators(run):
    import passlib.totp as T
    import passlib.pwd as P
    src = R.RecordingSource(f"{run.seed}:totp")
    undo, touched = R.install(src)
    run.extra["rng_injection_points"] = touched
    try:
        for alg, dsize in (("sha1", 20), ("sha256", 32), ("sha512", 64)):
            for size in (None, 10, 16, dsize):
                keys = []
                for i in range(300):
                    b = src.bits
                    t = T.TOTP.new(alg=alg, **({} if size is None else {"size": size}))
                    keys.append(t.key)
                    want = size or dsize
                    if len(t.key) != want or src.bits - b < 8 * want:
                        run.violation("C06|TOTP.new|key-size-or-entropy", f"TOTP.new(alg={alg}, size={size}): key of {len(t.key)} bytes, {src.bits - b:.0f} source bits", dict(alg=alg, size=size))
                        break
                stat_bytes(run, f"TOTP.new|alg={alg}|size={size}", keys * 1, size or dsize) if len(keys) >= 300 else None
                run.count("totp_new")
        for ent in list(range(1, 40)) + [64, 100, 128, 190, 192, 256, 300]:
            for cs_name, cs in (("hex", "0123456789abcdef"), ("binary", "01"), ("base32", "ABCDEFGHIJKLMNOPQRSTUVWXYZ234567"), ("ascii94", ALPHABETS[94]), ("ten", ALPHABETS[10])):
                b = src.bits
                sec = T.generate_secret(ent, charset=cs)
                have = len(sec) * math.log2(len(cs))
                run.case(("generate_secret", cs_name, ent > 64), dict(helper="generate_secret", entropy=ent, charset=cs_name, length=len(sec)))
                run.count("generate_secret_cases")
                if have + 1e-9 < ent or any(c not in cs for c in sec) or src.bits - b + 1e-6 < ent:
                    run.violation("C06|generate_secret|entropy-short", f"generate_secret({ent}, charset={cs_name}) -> {len(sec)} symbols = {have:.1f} bits (source asked for {src.bits - b:.0f} bits)",
                                  dict(entropy=ent, charset=cs_name, value=sec))
                if have - math.log2(len(cs)) >= ent + 1e-9:
                    run.count("generate_secret_longer_than_minimal")      # allowed by the property (at least the requested entropy); only counted
        for ent in (64, 128, 256, 300, 6, 24, 192, 191):
            b = src.bits
            s = T.generate_secret(ent)
            cs = "".join(sorted(set(s)))
            L = 62
            if len(s) * math.log2(L) + 1e-9 < ent or src.bits - b + 1e-6 < ent:
                run.violation("C06|generate_secret|entropy-short", f"generate_secret({ent}) -> {len(s)} symbols, {src.bits - b:.0f} source bits", dict(entropy=ent, value=s))
            run.case(("generate_secret", ent), dict(helper="generate_secret", entropy=ent, length=len(s)))
        # genword / genphrase
        for ent in (None, 20, 48, 64, 90, "weak", "fair", "strong", "secure"):
            for charset in (None, "ascii_62", "ascii_50", "ascii_72", "hex"):
                for length in (None, 3, 40):
                    kw = {k: v for k, v in (("entropy", ent), ("charset", charset), ("length", length)) if v is not None}
                    b = src.bits
                    pw = P.genword(**kw)
                    gen = P.WordGenerator(**kw)
                    chars = gen.chars
                    req = {"weak": 24, "fair": 36, "strong": 48, "secure": 60}.get(ent, ent)
                    if req is None and length is None:
                        req = 48
                    have = len(pw) * math.log2(len(set(chars)))
                    w = dict(helper="genword", kw=kw, value=pw, bits=have)
                    if any(c not in chars for c in pw):
                        run.violation("C06|genword|outside-charset", "genword output outside its charset", w)
                    if req is not None and have + 1e-9 < req:
                        run.violation("C06|genword|entropy-short", f"genword({kw}): {have:.1f} bits < requested {req}", w)
                    if length is not None and len(pw) < length:
                        run.violation("C06|genword|length-short", f"genword({kw}): length {len(pw)} < {length}", w)
                    if src.bits - b + 1e-6 < (req or 0):
                        run.violation("C06|genword|source-entropy-short", f"genword({kw}) asked the source for {src.bits - b:.0f} bits", w)
                    run.case(("genword", str(ent), charset, length), w)
                    run.count("genword")
        for ent in (None, 30, 64, "fair"):
            for wordset in (None, "eff_long", "eff_short", "eff_prefixed", "bip39"):
                for length in (None, 2, 9):
                    kw = {k: v for k, v in (("entropy", ent), ("wordset", wordset), ("length", length)) if v is not None}
                    b = src.bits
                    ph = P.genphrase(**kw)
                    gen = P.PhraseGenerator(**kw)
                    words = ph.split(gen.sep)
                    req = {"weak": 24, "fair": 36, "strong": 48, "secure": 60}.get(ent, ent)
                    if req is None and length is None:
                        req = 48
                    have = len(words) * math.log2(len(set(gen.words)))
                    w = dict(helper="genphrase", kw=kw, value=ph, bits=have)
                    if any(x not in gen.words for x in words):
                        run.violation("C06|genphrase|outside-wordset", "genphrase word outside its wordset", w)
                    if req is not None and have + 1e-9 < req:
                        run.violation("C06|genphrase|entropy-short", f"genphrase({kw}): {have:.1f} bits < requested {req}", w)
                    if length is not None and len(words) < length:
                        run.violation("C06|genphrase|length-short", f"genphrase({kw}): {len(words)} words < {length}", w)
                    if src.bits - b + 1e-6 < (req or 0):
                        run.violation("C06|genphrase|source-entropy-short", f"genphrase({kw}) asked the source for {src.bits - b:.0f} bits", w)
                    run.case(("genphrase", str(ent), wordset, length), w)
                    run.count("genphrase")
        # symbol uniformity of generated words and phrases
        g = P.WordGenerator(length=12, charset="ascii_62")
        vals = [next(g) for _ in range(6000)]
        stat_symbols(run, "genword|ascii_62|12", vals, g.chars, 12)
        custom = P.WordGenerator(length=6, chars="abcdefgh")
        vals = [next(custom) for _ in range(6000)]
        stat_symbols(run, "genword|custom8|6", vals, "abcdefgh", 6)
        g = P.PhraseGenerator(length=4, words=["w%02d" % i for i in range(40)])
        phr = [next(g).split(g.sep) for _ in range(8000)]
        stat_symbols(run, "genphrase|40words|4", phr, g.words, 4)
        # alphabets / word lists with duplicate entries skew the distribution: they must be refused, every time they are offered
        for label, mk in (("chars-str", lambda: P.genword(chars="abcdefga", length=8)), ("chars-str-2", lambda: P.WordGenerator(chars="xyzzy", length=4)),
                          ("words-tuple", lambda: P.genphrase(words=("one", "two", "three", "two"), length=3)),
                          ("words-list", lambda: P.genphrase(words=["one", "two", "three", "two"], length=3))):
            for attempt in range(3):
                try:
                    out = mk()
                except ValueError:
                    run.count("duplicate_alphabet_refused")
                    run.case(("dup-alphabet", label, attempt), None)
                    continue
                run.violation(f"C06|pwd|duplicate-alphabet-accepted|{'retry' if attempt else 'first'}",
                              f"passlib.pwd accepted an alphabet with duplicate symbols ({label}, attempt {attempt + 1}): symbols are no longer equally likely while the reported entropy assumes they are",
                              dict(label=label, attempt=attempt + 1, output=repr(out)))
                break
        # ... including after the same symbols were offered (and accepted) without duplicates: a validation cache keyed on
        # the *set* of symbols would wave the skewed alphabet through (sequence: clean offer, then the same symbols with repeats)
        for kind, base in (("chars", "qzx7"), ("chars", "Kp3_vW"), ("words", ["alpha", "beta", "gamma", "delta"])):
            mk = (lambda a: P.WordGenerator(chars=a, length=6)) if kind == "chars" else (lambda a: P.PhraseGenerator(words=a, length=3))
            mk(base)
            mk(base[::-1])
            for vi, dup in enumerate([base + base[:1] * 4, base[::-1] + base[:1], base * 2, base[:1] + base]):
                for cont in (((lambda a: a),) if kind == "chars" else (tuple, list)):
                    arg = cont(dup)
                    try:
                        g = mk(arg)
                    except ValueError:
                        run.count("duplicate_alphabet_refused_after_clean_offer")
                        run.case(("dup-after-clean", kind, vi, type(arg).__name__), None)
                        continue
                    run.violation(f"C06|pwd|duplicate-alphabet-accepted|after-clean-offer|{kind}",
                                  f"passlib.pwd accepted {kind}={arg!r} after the same symbols had been offered without repeats: it reports {g.symbol_count} equally likely symbols",
                                  dict(kind=kind, first=repr(base), then=repr(arg), symbol_count=g.symbol_count))
        # django_disabled suffix
        import passlib.hash as PH
        sfx = [PH.django_disabled.hash("x")[1:] for _ in range(3000)]
        stat_symbols(run, "django_disabled|suffix", sfx, "ABCDEFGHIJKLMNOPQRSTUVWXYZabcdefghijklmnopqrstuvwxyz0123456789", len(sfx[0]))
    finally:
        undo()
    # wallet salt / encrypted keys need AES
    try:
        import cryptography  # noqa: F401
    except ImportError:
        run.note("AppWallet key encryption (wallet salt) needs the 'cryptography' package, which is not installed - not exercised")
    # libpass salts
    import libpass._salt as LS
    vals = [LS.generate_salt(16) for _ in range(6000)]
    stat_symbols(run, "libpass.generate_salt|16", vals, LS.DEFAULT_CHARS, 16)
    for bits in (1, 64, 128, 129, 256):
        s = LS.generate_salt_by_entropy(bits)
        if len(s) * math.log2(len(LS.DEFAULT_CHARS)) + 1e-9 < bits:
            run.violation("C06|libpass.generate_salt_by_entropy|entropy-short", f"{bits} bits requested, {len(s)} symbols", dict(bits=bits, value=s))
        run.case(("libpass.salt_by_entropy", bits), dict(helper="generate_salt_by_entropy", bits=bits, length=len(s)))
    # ... for every alphabet, not only the default one
    for cs_name, cs in (("hex", "0123456789abcdef"), ("binary", "01"), ("base32", "ABCDEFGHIJKLMNOPQRSTUVWXYZ234567"), ("ascii94", ALPHABETS[94]), ("ten", ALPHABETS[10]), ("three", "abc")):
        for bits in (1, 7, 8, 31, 64, 100, 128, 255, 256):
            try:
                sv = LS.generate_salt_by_entropy(bits, chars=cs)
            except TypeError:
                sv = LS.generate_salt_by_entropy(bits, cs)
            run.count("libpass_salt_by_entropy_alphabets")
            run.case(("libpass.salt_by_entropy", cs_name, bits > 64), dict(helper="generate_salt_by_entropy", alphabet=cs_name, bits=bits, length=len(sv)))
            if len(sv) * math.log2(len(cs)) + 1e-9 < bits or any(c not in cs for c in sv):
                run.violation("C06|libpass.generate_salt_by_entropy|entropy-short", f"{bits} bits requested over the {cs_name} alphabet: {len(sv)} symbols = {len(sv) * math.log2(len(cs)):.1f} bits",
                              dict(bits=bits, alphabet=cs_name, value=sv))
    # cisco_type7: the salt is a key offset drawn from the documented range 0..15 - every value must come up, about equally often
    import passlib.hash as PH
    seen = {}
    n7 = 4000
    for _ in range(n7):
        hs = PH.cisco_type7.hash("pw")
        seen[hs[:2]] = seen.get(hs[:2], 0) + 1
    run.case(("cisco_type7", "salt-values"), dict(hasher="cisco_type7", hashes=n7, distinct_salts=len(seen)))
    run.count("cisco_type7_salts", n7)
    want = {"%02d" % v for v in range(16)}
    exp = n7 / 16
    worst = max(abs(seen.get(k, 0) - exp) for k in want)
    if set(seen) != want or worst > 8 * (exp * 15 / 16) ** 0.5:
        run.violation("C06|cisco_type7|salt-values-not-uniform-over-0..15", f"cisco_type7 salts over {n7} hashes: {dict(sorted(seen.items()))} (declared space 00..15, expected about {exp:.0f} each)", dict(counts=seen))


def pinned_salt(run):
    from passlib.context import CryptContext
    attempts = {
        "scheme-key": lambda: CryptContext(schemes=["md5_crypt"], md5_crypt__salt="abcdefgh"),
        "all-key": lambda: CryptContext(schemes=["md5_crypt"], all__salt="abcdefgh"),
        "category-key": lambda: CryptContext(schemes=["md5_crypt"], admin__md5_crypt__salt="abcdefgh"),
        "global-key": lambda: CryptContext(schemes=["md5_crypt"], salt="abcdefgh"),
        "ini": lambda: CryptContext.from_string("[passlib]\nschemes = md5_crypt\nmd5_crypt__salt = abcdefgh\n"),
        "update": lambda: CryptContext(schemes=["md5_crypt"]).update(md5_crypt__salt="abcdefgh"),
        "load-dict": lambda: CryptContext(schemes=["md5_crypt"]).load({"schemes": ["md5_crypt"], "md5_crypt__salt": "abcdefgh"}),
        "copy": lambda: CryptContext(schemes=["md5_crypt"]).copy(md5_crypt__salt="abcdefgh"),
        "using": lambda: CryptContext(schemes=["md5_crypt"]).using(md5_crypt__salt="abcdefgh"),
        "raw-salt-scheme": lambda: CryptContext(schemes=["pbkdf2_sha256"], pbkdf2_sha256__salt=b"12345678"),
        "dotted-key": lambda: CryptContext(schemes=["md5_crypt"], **{"md5_crypt.salt": "abcdefgh"}),
    }
    for label, fn in attempts.items():
        try:
            ctx = fn()
        except (KeyError, ValueError, TypeError):
            run.case(("pinned-salt", label), dict(attempt=label, refused=True))
            run.count("pinned_salt_refused")
            continue
        except Exception as e:
            run.violation(f"C06|pinned-salt|{label}|{type(e).__name__}", f"salt under {label}: unexpected {type(e).__name__}", {})
            continue
        a = b = None
        try:
            if ctx is not None:
                a, b = ctx.hash("x"), ctx.hash("x")
        except Exception:
            pass
        if label == "global-key" and a != b:
            # a global 'salt' key that is ignored (not pinned) is tolerated only if salts still vary
            run.case(("pinned-salt", label), dict(attempt=label, refused=False, salts_vary=True))
            continue
        run.violation(f"C06|pinned-salt|{label}|accepted", f"CryptContext accepted a pinned salt via {label}" + (" and produces identical hashes" if a == b and a else ""), dict(attempt=label, hashes=[a, b]))


def body(run):
    exhaustive(run)
    statistical(run)
    other_generators(run)
    application_hasher(run)
    run.require("application_hasher_salts", 100)
    pinned_salt(run)
    names = [n for n in H.names() if "salt" in getattr(H.get(n), "setting_kwds", ()) and H.usable(n) and n != "cisco_type7"]
    run.parallel("checks.c06", "salts", [dict(names=names[i::12]) for i in range(12)], timeout=900 if run.tier == "quick" else 3600)
    for n in names:
        run.require(f"salts:{n}", 1)
    run.require("exhaustive_enumerations", 20)
    run.require("bit_pairs_tested", 100000)
    run.require("pinned_salt_refused", 8)
    run.require("genword", 50)
    run.require("duplicate_alphabet_refused_after_clean_offer", 16)
    run.assumptions += ["uniformity is judged relative to a uniform random source (the source is replaced by an enumerating or a seeded Mersenne source)",
                        f"statistical monitors fire beyond {Z} sigma only"]


if __name__ == "__main__":
    main("C06", "exploration", RULE, body)
