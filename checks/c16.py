"""C16 - htpasswd/htdigest files stay a faithful user database under any edit history.

History monitor against an executable model (ordered map of users + the untouched comment / blank lines).  After EVERY
operation the exported text is parsed by an independent reader written here (first occurrence of a key wins, as in
Apache; '#' and blank lines are not records) and compared with the model: same users with the same hashes, every user
(per realm) exactly once, untouched lines in their original order; check_password answers are compared with the model
(True exactly for the password last set, None for unknown users) and deprecated hashes must have been upgraded.
Workload: ALL operation sequences up to a bounded depth over a small alphabet (explicit enumeration), long random
sequences including save / load / load_if_changed on real files (mtimes forced), autosave on/off, text and bytes
arguments, utf-8 and latin-1 files, initial contents with comments, duplicates, blank lines; forbidden names."""
import hashlib
import itertools
import os
import shutil
import tempfile

from vlib import hashers as H
from vlib.run import main

RULE = ("case = one operation of an edit history followed by the independent re-reading of the exported text; distinct = distinct "
        "operation sequences (bounded-exhaustive part: every sequence up to the stated depth) and distinct (file class, operation, "
        "model situation) tuples of the random part")

HA, HB, HC, HO, HD = '$1$abcdefgh$QyefXIEvJA6VQBPXKzmBp/', 'abp4VMFUAAokQ', '{SHA}4n1iW94tXu+lw8TVtIuF6gW7Y/o=', '$1$saltsalt$d7LNQ2MbR/sz/hgJ/B94y/', '$5$rounds=1000$saltsalt$H6E9nXSwitfS2OgmfFtbYVDWrsTNkek78/VLs32y/t3'   # valid hashes of initA (md5-crypt), initB (des), initC (ldap-sha1), other (md5-crypt), initD
INITIALS = {
    "empty": b"",
    "plain": ("a:" + HA + "\nc:" + HC + "\n").encode(),
    "comments": ("# first comment\na:" + HA + "\n\n# second comment\nb:" + HB + "\n   \n#tail\n").encode(),
    "duplicates": ("a:" + HA + "\nb:" + HB + "\na:" + HO + "\n# note\nb:" + HD + "\nc:" + HC + "\n").encode(),
    "crlf-and-blank": ("a:" + HA + "\r\n\r\nb:" + HB + "\r\n").encode(),
    "record-unterminated": ("a:" + HA + "\nc:" + HC).encode(),
    "comment-unterminated": ("a:" + HA + "\n# the end").encode(),
    "only-comment-unterminated": b"  # nothing here",
}
INITIALS_DIGEST = {
    "empty": b"",
    "plain": b"a:r:0123456789abcdef0123456789abcdef\nb:s:fedcba9876543210fedcba9876543210\n",
    "comments": b"# c1\na:r:00000000000000000000000000000000\n\n# c2\na:s:11111111111111111111111111111111\n",
    "duplicates": b"a:r:aaaaaaaaaaaaaaaaaaaaaaaaaaaaaaaa\nb:r:bbbbbbbbbbbbbbbbbbbbbbbbbbbbbbbb\na:r:cccccccccccccccccccccccccccccccc\n# n\n",
    "record-unterminated": b"a:r:0123456789abcdef0123456789abcdef\nb:s:fedcba9876543210fedcba9876543210",
    "comment-unterminated": b"a:r:0123456789abcdef0123456789abcdef\n#the end",
}


# ------------------------------------------------------------------------------------------------- independent reader
def read_file(data, nfields):
    """-> (ordered list of (key, hash)), list of untouched lines, duplicates found"""
    recs, seen, other, dups = [], set(), [], []
    for line in data.split(b"\n"):
        if not line.strip() or line.lstrip().startswith(b"#"):
            if line.strip():
                other.append(line.strip())
            continue
        parts = line.rstrip(b"\r").rstrip().split(b":")
        if len(parts) != nfields:
            other.append(b"MALFORMED:" + line)
            continue
        key = tuple(parts[:-1])
        if key in seen:
            dups.append(key)
            continue
        seen.add(key)
        recs.append((key, parts[-1]))
    return recs, other, dups


class Model:
    def __init__(self, nfields):
        self.nfields = nfields
        self.order = []          # keys in file order
        self.hash = {}           # key -> hash bytes | None (set by password: hash unknown, password known)
        self.pw = {}             # key -> password last set (bytes) | None
        self.comments = []       # untouched non-record lines (stripped), in order

    def load(self, data):
        recs, other, _ = read_file(data, self.nfields)
        self.order = [k for k, _ in recs]
        self.hash = dict(recs)
        self.pw = {k: None for k in self.order}
        self.comments = other

    def set(self, key, hash_=None, pw=None):
        existing = key in self.hash
        if not existing:
            self.order.append(key)
        self.hash[key] = hash_
        self.pw[key] = pw
        return existing

    def delete(self, key):
        if key not in self.hash:
            return False
        self.order.remove(key)
        del self.hash[key]
        del self.pw[key]
        return True


def enc(x, encoding):
    return x.encode(encoding) if isinstance(x, str) else x


class Driver:
    """applies operations to the real object and the model, re-reading the export after each one"""

    def __init__(self, run, kind, encoding="utf-8", autosave=False, path=None, initial=b"", ctx=None, default_realm=None, label=""):
        import passlib.apache as A
        self.run, self.kind, self.encoding, self.path = run, kind, encoding, path
        self.nf = 2 if kind == "htpasswd" else 3
        self.model = Model(self.nf)
        self.log = []
        self.label = label
        self.ctx = ctx
        self.default_realm = default_realm
        self.dead = False
        kw = dict(encoding=encoding, autosave=autosave)
        if kind == "htpasswd":
            if ctx is not None:
                kw["context"] = ctx
            cls = A.HtpasswdFile
        else:
            cls = A.HtdigestFile
            if default_realm is not None:
                kw["default_realm"] = default_realm
        if path:
            with open(path, "wb") as fh:
                fh.write(initial)
            self.obj = cls(path, **kw)
            self.file_model = initial
            self.sync_mtime = os.path.getmtime(path)      # the driver's own record of "file time at the last load/save of the bound path"
        else:
            self.obj = cls.from_string(initial, **kw)
        self.model.load(initial)
        self.synced = True
        self.autosave = autosave
        self.verify("init", (label,))

    def violation(self, mech, what):
        self.dead = True
        self.run.violation(f"C16|{self.kind}|{mech}", what, dict(file_class=self.kind, encoding=self.encoding, autosave=self.autosave, initial=self.label, history=self.log[-12:]))

    def key(self, user, realm=None):
        u = enc(user, self.encoding)
        if self.nf == 2:
            return (u,)
        r = enc(realm if realm is not None else self.default_realm, self.encoding)
        return (u, r)

    def verify(self, op, args, changed=True):
        """the invariant at a hook: export -> independent reader -> model"""
        if self.dead:
            return
        self.log.append([op] + [a if not isinstance(a, bytes) else a.decode("latin-1") for a in args])
        try:
            data = self.obj.to_string()
        except Exception as e:
            self.violation(f"export-raises|{type(e).__name__}|after-{op}", f"to_string() raised {type(e).__name__}: {str(e)[:100]} after {self.log[-3:]}")
            return
        if not isinstance(data, bytes):
            self.violation("export-not-bytes", "to_string() did not return bytes")
            return
        recs, other, dups = read_file(data, self.nf)
        m = self.model
        self.run.trivial()
        self.run.count("exports_reread")
        if dups:
            self.violation(f"user-twice|after-{op}", f"exported text lists {dups[0]} more than once after {self.log[-3:]}")
            return
        if [k for k, _ in recs] != m.order:
            got, want = [k for k, _ in recs], m.order
            kind = "deleted-user-reappears" if set(got) - set(want) else "user-lost" if set(want) - set(got) else "order-changed"
            self.violation(f"{kind}|after-{op}", f"exported users {got} but the history gives {want} (after {self.log[-3:]})")
            return
        for k, hs in recs:
            if m.hash[k] is not None and hs != m.hash[k]:
                self.violation(f"hash-changed|after-{op}", f"user {k}: exported hash {hs!r}, last stored {m.hash[k]!r}")
                return
            if m.hash[k] is None and m.pw[k] is not None:
                if not self.hash_matches(k, hs, m.pw[k]):
                    self.violation(f"stored-hash-does-not-match-password|after-{op}", f"user {k}: exported hash {hs!r} is not a hash of the password last set")
                    return
        if other != m.comments:
            self.violation(f"untouched-lines-changed|after-{op}", f"comment / blank-line content changed: {other} vs {m.comments}")
            return
        if self.path and self.autosave and changed and op in ("set_password", "set_hash", "delete", "delete_realm"):
            with open(self.path, "rb") as fh:
                disk = fh.read()
            if disk != data:
                self.violation(f"autosave-stale|after-{op}", "autosave is on but the file on disk differs from the exported state")

    def hash_matches(self, k, hs, pw):
        if self.nf == 3:
            # htdigest: md5(user:realm:password) in the file's encoding, computed here
            want = hashlib.md5(k[0] + b":" + k[1] + b":" + pw).hexdigest().encode()
            return hs == want
        ctx = self.ctx
        if ctx is None:
            import passlib.apache as A
            ctx = A.htpasswd_context
        try:
            return bool(ctx.verify(pw, hs))
        except Exception:
            return False

    # ---- operations
    def call(self, name, fn):
        try:
            return True, fn()
        except Exception as e:
            self.violation(f"{name}-raises|{type(e).__name__}", f"{name} raised {type(e).__name__}: {str(e)[:100]} after {self.log[-3:]}")
            return False, None

    def set_password(self, user, pw, realm=None):
        args = (user, pw) if self.nf == 2 else (user, realm, pw)
        ok, r = self.call("set_password", lambda: self.obj.set_password(*args))
        if not ok:
            return
        exp = self.model.set(self.key(user, realm), None, enc(pw, self.encoding))
        self.after_change()
        if r is not exp:
            self.violation("set_password-return", f"set_password returned {r!r}, existing user: {exp}")
        self.verify("set_password", args)

    def set_hash(self, user, hs, realm=None):
        args = (user, hs) if self.nf == 2 else (user, realm, hs)
        ok, r = self.call("set_hash", lambda: self.obj.set_hash(*args))
        if not ok:
            return
        exp = self.model.set(self.key(user, realm), enc(hs, self.encoding), None)
        self.after_change()
        if r is not exp:
            self.violation("set_hash-return", f"set_hash returned {r!r}, existing user: {exp}")
        self.verify("set_hash", args)

    def delete(self, user, realm=None):
        args = (user,) if self.nf == 2 else (user, realm)
        ok, r = self.call("delete", lambda: self.obj.delete(*args))
        if not ok:
            return
        exp = self.model.delete(self.key(user, realm))
        if exp:
            self.after_change()
        if r is not exp:
            self.violation("delete-return", f"delete returned {r!r}, user present: {exp}")
        self.verify("delete", args, changed=exp)

    def delete_realm(self, realm):
        ok, r = self.call("delete_realm", lambda: self.obj.delete_realm(realm))
        if not ok:
            return
        rb = enc(realm, self.encoding)
        keys = [k for k in self.model.order if k[1] == rb]
        for k in keys:
            self.model.delete(k)
        self.after_change()
        if r != len(keys):
            self.violation("delete_realm-return", f"delete_realm returned {r}, {len(keys)} users in that realm")
        self.verify("delete_realm", (realm,), changed=bool(keys))

    def check(self, user, pw, realm=None):
        args = (user, pw) if self.nf == 2 else (user, realm, pw)
        ok, r = self.call("check_password", lambda: self.obj.check_password(*args))
        if not ok:
            return
        k = self.key(user, realm)
        m = self.model
        pwb = enc(pw, self.encoding)
        if k not in m.hash:
            exp = None
        elif m.pw[k] is not None:
            exp = (m.pw[k] == pwb)
        else:
            exp = "unknown"   # hash set directly: only judge hashes we can evaluate
            if self.nf == 3:
                exp = m.hash[k] == hashlib.md5(k[0] + b":" + k[1] + b":" + pwb).hexdigest().encode()
            elif self.ctx is not None:
                try:
                    exp = bool(self.ctx.verify(pwb, m.hash[k]))
                except ValueError:
                    exp = "unknown"
        if exp != "unknown" and r is not exp:
            self.violation(f"check_password|expected-{exp}", f"check_password{args} returned {r!r}; by the history it must be {exp!r}")
        # a deprecated hash is upgraded on a successful check
        if r is True and self.nf == 2 and self.ctx is not None and m.hash[k] is not None:
            try:
                if self.ctx.needs_update(m.hash[k]):
                    m.hash[k], m.pw[k] = None, pwb
                    self.after_change()
                    self.upgrade_expected = k
            except ValueError:
                pass
        self.verify("check", args)
        if getattr(self, "upgrade_expected", None) == k and not self.dead:
            self.upgrade_expected = None
            cur = self.obj.get_hash(user)
            curb = enc(cur, self.encoding) if cur is not None else None
            if curb is None or self.ctx.needs_update(curb):
                self.violation("deprecated-hash-not-upgraded", f"check_password succeeded on a deprecated hash but the stored hash is still {curb!r}")
            self.run.count("upgrades_checked")
            if self.path and self.autosave and not self.dead:
                # the upgrade is a change of the database: with autosave on it reaches the file
                with open(self.path, "rb") as fh:
                    disk = fh.read()
                self.run.count("upgrade_autosave_checked")
                if disk != self.obj.to_string():
                    self.violation("autosave-stale|after-check_password-upgrade", "autosave is on, check_password replaced a deprecated hash, but the file on disk still differs from the exported state")

    def load_string(self, data, label):
        ok, _ = self.call("load_string", lambda: self.obj.load_string(data))
        if not ok:
            return
        self.model.load(data)
        self.synced = False
        self.sync_mtime = None
        self.verify("load_string", (label,))

    def after_change(self):
        if self.path and self.autosave:
            self.file_model = None   # equals the export; checked in verify()
            self.synced = True
            self.sync_mtime = os.path.getmtime(self.path)
        elif self.path:
            self.synced = False

    def save(self):
        ok, _ = self.call("save", lambda: self.obj.save())
        if not ok:
            return
        with open(self.path, "rb") as fh:
            disk = fh.read()
        if disk != self.obj.to_string():
            self.violation("save-differs-from-export", "file written by save() differs from to_string()")
        self.synced = True
        self.sync_mtime = os.path.getmtime(self.path)
        self.verify("save", ())

    def save_copy(self):
        """save(<another path>): a copy is written; the object stays bound to, and in step with, its own file"""
        other = self.path + ".copy"
        ok, _ = self.call("save-copy", lambda: self.obj.save(other))
        if not ok:
            return
        with open(other, "rb") as fh:
            disk = fh.read()
        st = os.stat(other)
        os.utime(other, (st.st_atime, st.st_mtime + 7))       # (the copy's timestamp is unrelated to the bound file's)
        if disk != self.obj.to_string():
            self.violation("save-differs-from-export", "file written by save(<other path>) differs from to_string()")
        self.verify("save-copy", ())

    def external_write(self, data, label, bump):
        """another process rewrites the file; mtime moves forward (forced)"""
        with open(self.path, "wb") as fh:
            fh.write(data)
        st = os.stat(self.path)
        os.utime(self.path, (st.st_atime, st.st_mtime + bump))
        self.external = (data, bump != 0)
        self.log.append(["external-write", label, bump])

    def load_if_changed(self):
        before_mtime = self.obj.mtime
        disk_mtime = os.path.getmtime(self.path)
        with open(self.path, "rb") as fh:
            disk = fh.read()
        ok, r = self.call("load_if_changed", lambda: self.obj.load_if_changed())
        if not ok:
            return
        must_reload = (not self.sync_mtime) or self.sync_mtime != disk_mtime
        model_reload = must_reload
        self.run.count("load_if_changed_calls")
        if r is not model_reload:
            self.violation(f"load_if_changed|expected-{model_reload}", f"load_if_changed returned {r!r}: recorded mtime {before_mtime}, file mtime {disk_mtime}")
            return
        if r:
            self.model.load(disk)
            self.synced = True
            self.sync_mtime = disk_mtime
        self.verify("load_if_changed", ())

    def load(self, other_path=None, other_data=None):
        if other_path:
            with open(other_path, "wb") as fh:
                fh.write(other_data)
            ok, _ = self.call("load", lambda: self.obj.load(other_path))
            if ok:
                self.model.load(other_data)
                self.synced = False
                self.sync_mtime = None
                # the object now holds another file's content: it is no longer in sync with its own path
                if self.obj.mtime:
                    self.violation("load-other-path-keeps-mtime", "after load(<other path>) the object still reports the mtime of its own file, so load_if_changed() will not reload it")
                self.verify("load-other", ())
        else:
            with open(self.path, "rb") as fh:
                disk = fh.read()
            ok, _ = self.call("load", lambda: self.obj.load())
            if ok:
                self.model.load(disk)
                self.synced = True
                self.sync_mtime = os.path.getmtime(self.path)
                self.verify("load", ())


# ------------------------------------------------------------------------------------------------- workloads
def make_ctx():
    from passlib.context import CryptContext
    return CryptContext(schemes=["md5_crypt", "sha256_crypt", "des_crypt", "ldap_sha1"], default="md5_crypt", deprecated=["des_crypt", "ldap_sha1"], sha256_crypt__max_rounds=1500)


def bounded(run, kind, initial, depth, part, parts):
    """ALL sequences up to `depth` over a small alphabet"""
    ctx = make_ctx() if kind == "htpasswd" else None
    des_p = ctx.handler("des_crypt").hash("p") if ctx else None
    if kind == "htpasswd":
        init = INITIALS[initial]
        ops = [("set_password", "a", "p"), ("set_password", "b", "q"), ("set_password", "a", "q"), ("set_hash", "a", des_p), ("set_hash", "b", HO),
               ("delete", "a"), ("delete", "b"), ("check", "a", "p"), ("check", "a", "q"), ("check", "b", "q"), ("load_string", initial), ("delete", "c")]
    else:
        init = INITIALS_DIGEST[initial]
        ops = [("set_password", "a", "p", "r"), ("set_password", "a", "q", "s"), ("set_password", "b", "q", "r"), ("set_hash", "a", "0" * 32, "r"), ("delete", "a", "r"),
               ("delete", "b", "r"), ("delete", "a", "s"), ("delete_realm", "r"), ("check", "a", "p", "r"), ("check", "a", "q", "s"), ("check", "b", "p", "r"), ("load_string", initial)]
    n = 0
    for d in range(1, depth + 1):
        for i, seq in enumerate(itertools.product(range(len(ops)), repeat=d)):
            if i % parts != part:
                continue
            drv = Driver(run, kind, initial=init, ctx=ctx, default_realm=None, label=initial)
            for oi in seq:
                if drv.dead:
                    break
                op = ops[oi]
                if op[0] == "set_password":
                    drv.set_password(op[1], op[2], *(op[3:]))
                elif op[0] == "set_hash":
                    drv.set_hash(op[1], op[2], *(op[3:]))
                elif op[0] == "delete":
                    drv.delete(op[1], *(op[2:]))
                elif op[0] == "delete_realm":
                    drv.delete_realm(op[1])
                elif op[0] == "check":
                    drv.check(op[1], op[2], *(op[3:]))
                elif op[0] == "load_string":
                    drv.load_string(init, initial)
            n += 1
            run.evaluations += 1
            if n % 97 == 0 or d <= 2:
                run.distinct.add(f"{kind}|{initial}|seq|" + ",".join(ops[o][0][:6] + str(o) for o in seq))
    run.count(f"bounded:{kind}:{initial}", n)
    run.count("bounded_sequences", n)
    if len(run.samples) < 12:
        run.samples.append(dict(bounded_exhaustive=dict(file_class=kind, initial=initial, depth=depth, alphabet=[list(o) for o in ops], sequences_in_this_shard=n)))


def randoms(run, part, count):
    rng = run.rng(f"rand{part}")
    tmp = tempfile.mkdtemp(prefix="verif-c16-")
    try:
        for h in range(count):
            kind = "htpasswd" if h % 2 == 0 else "htdigest"
            encoding = rng.choice(["utf-8", "utf-8", "latin-1"])
            autosave = rng.random() < 0.4
            inits = INITIALS if kind == "htpasswd" else INITIALS_DIGEST
            label = rng.choice(list(inits))
            ctx = make_ctx() if kind == "htpasswd" and rng.random() < 0.8 else None
            path = os.path.join(tmp, f"f{part}_{h}")
            default_realm = rng.choice(["r", None]) if kind == "htdigest" else None
            drv = Driver(run, kind, encoding=encoding, autosave=autosave, path=path, initial=inits[label], ctx=ctx, default_realm=default_realm, label=label)
            users = ["a", "b", "c", "üser", "u w", b"bytes-user"] if encoding != "latin-1" else ["a", "b", "üser", "Ünï"]
            realms = ["r", "s", "réalm", ""]          # (an empty realm is a valid field: user::hash)
            pws = ["p", "q", "pässword", "x y", b"bytes pw"]
            des_p = ctx.handler("des_crypt").hash("p") if ctx else HB
            for step in range(30):
                if drv.dead:
                    break
                op = rng.choice(["set_password"] * 4 + ["set_hash"] * 2 + ["delete"] * 3 + ["check"] * 4 + ["save", "load", "load_if_changed", "load_if_changed", "external", "load_string", "load_other", "delete_realm", "save_copy"])
                u = rng.choice(users)
                if isinstance(u, str) and rng.random() < 0.3:
                    try:
                        u = u.encode(encoding)
                    except UnicodeError:
                        pass
                realm = rng.choice(realms) if kind == "htdigest" else None
                if kind == "htdigest" and default_realm and rng.random() < 0.3:
                    realm = None
                ra = () if kind == "htpasswd" else (realm,)
                pw = rng.choice(pws)
                if kind == "htdigest" and isinstance(pw, bytes):
                    pw = "p"
                run.count(f"op:{op}")
                if op == "set_password":
                    drv.set_password(u, pw, *ra)
                elif op == "set_hash":
                    drv.set_hash(u, rng.choice([des_p, HO, HD, HC]) if kind == "htpasswd" else "%032x" % rng.getrandbits(128), *ra)
                elif op == "delete":
                    drv.delete(u, *ra)
                elif op == "delete_realm" and kind == "htdigest":
                    drv.delete_realm(rng.choice(realms))
                elif op == "check":
                    drv.check(u, pw, *ra)
                elif op == "save":
                    drv.save()
                elif op == "save_copy":
                    drv.save_copy()
                    if not drv.dead and rng.random() < 0.7:
                        drv.load_if_changed()
                elif op == "load":
                    drv.load()
                elif op == "load_if_changed":
                    drv.load_if_changed()
                elif op == "external":
                    lab = rng.choice(list(inits))
                    drv.external_write(inits[lab], lab, rng.choice([0, 5, 100]))
                elif op == "load_string":
                    lab = rng.choice(list(inits))
                    drv.load_string(inits[lab], lab)
                elif op == "load_other":
                    lab = rng.choice(list(inits))
                    drv.load(path + ".other", inits[lab])
                    if not drv.dead:
                        drv.load_if_changed()
            run.case((kind, encoding, autosave, label, "random-history"), dict(file_class=kind, encoding=encoding, autosave=autosave, initial=label, history=drv.log[:14]))
            run.count("random_histories")
    finally:
        shutil.rmtree(tmp, ignore_errors=True)


def names(run):
    """forbidden user / realm names are refused by every operation"""
    import passlib.apache as A
    bad = {"colon": "a:b", "newline": "a\nb", "cr": "a\rb", "tab": "a\tb", "nul": "a\x00b", "256-bytes": "u" * 256, "256-bytes-multibyte": "é" * 128,
           "255-chars-multibyte-300-bytes": "x" * 210 + "é" * 45, "bytes-256": b"u" * 256, "bytes-colon": b"a:b"}
    ok = {"255-bytes": "u" * 255, "127-multibyte=254-bytes": "é" * 127, "blank-inside": "a b"}
    for kind in ("htpasswd", "htdigest"):
        for enc_ in ("utf-8", "latin-1"):
            for label, name in list(bad.items()) + list(ok.items()):
                expect_refusal = label in bad
                if enc_ == "latin-1" and "multibyte" in label:
                    expect_refusal = len(name.encode("latin-1")) > 255 if isinstance(name, str) else expect_refusal
                f = A.HtpasswdFile(encoding=enc_) if kind == "htpasswd" else A.HtdigestFile(encoding=enc_, default_realm="r")
                if kind == "htpasswd":
                    calls = {"set_password": lambda: f.set_password(name, "p"), "set_hash": lambda: f.set_hash(name, "h"), "delete": lambda: f.delete(name),
                             "check_password": lambda: f.check_password(name, "p"), "get_hash": lambda: f.get_hash(name)}
                else:
                    calls = {"set_password": lambda: f.set_password(name, "r", "p"), "set_hash": lambda: f.set_hash(name, "r", "0" * 32), "delete": lambda: f.delete(name, "r"),
                             "check_password": lambda: f.check_password(name, "r", "p"), "get_hash": lambda: f.get_hash(name, "r"),
                             "realm:set_password": lambda: f.set_password("u", name, "p"), "realm:delete_realm": lambda: f.delete_realm(name), "realm:users": lambda: f.users(name),
                             "realm:default": lambda: A.HtdigestFile(default_realm=name, encoding=enc_).set_password("u", password="p")}
                for cname, fn in calls.items():
                    try:
                        fn()
                        raised = None
                    except ValueError:
                        raised = "ValueError"
                    except Exception as e:
                        raised = type(e).__name__
                    run.case((kind, enc_, "name", label, cname), dict(file_class=kind, encoding=enc_, name_class=label, operation=cname, raised=raised))
                    run.count("name_checks")
                    if expect_refusal and raised != "ValueError":
                        run.violation(f"C16|{kind}|forbidden-name-accepted|{label}|{cname.split(':')[0]}",
                                      f"{kind}.{cname} with a {label} name ({enc_}): " + (f"raised {raised}" if raised else "accepted") + "; such names must be refused with ValueError",
                                      dict(file_class=kind, name=name if isinstance(name, str) else name.decode("latin-1"), operation=cname, encoding=enc_))
                    if not expect_refusal and raised:
                        run.violation(f"C16|{kind}|valid-name-refused|{label}|{cname.split(':')[0]}", f"{kind}.{cname} refused a valid {label} name: {raised}", dict(name_class=label))
                # nothing forbidden ever reached the exported text
                out = f.to_string()
                if expect_refusal and out.strip():
                    run.violation(f"C16|{kind}|forbidden-name-written|{label}", f"a forbidden name reached the exported text: {out[:60]!r}", dict(name_class=label))


def body(run):
    depth_p, depth_d = (4, 4) if run.tier == "quick" else (5, 5)
    P = 8
    shards = []
    for label in INITIALS:
        for p in range(P):
            shards.append(dict(kind="htpasswd", initial=label, depth=depth_p if label in ("comments", "duplicates") or run.tier == "thorough" else depth_p - 1, part=p, parts=P))
    for label in INITIALS_DIGEST:
        for p in range(P):
            shards.append(dict(kind="htdigest", initial=label, depth=depth_d if label in ("duplicates", "comments") or run.tier == "thorough" else depth_d - 1, part=p, parts=P))
    run.parallel("checks.c16", "bounded", shards, timeout=1500 if run.tier == "quick" else 7000)
    run.parallel("checks.c16", "randoms", [dict(part=i, count=150 if run.tier == "quick" else 3000) for i in range(16)], timeout=1200 if run.tier == "quick" else 6000)
    names(run)
    run.exhaustive = True
    run.extra["exhaustive_scope"] = (f"every operation sequence up to depth {depth_p} (htpasswd) / {depth_d} (htdigest) over a 12-operation alphabet (users a,b; realms r,s; passwords p,q), "
                                     "from the 'comments' and 'duplicates' initial files (one level less from the other initial contents in the quick tier)")
    run.require("bounded_sequences", 5000)
    run.require("random_histories", 500)
    run.require("exports_reread", 30000)
    run.require("upgrades_checked", 20)
    run.require("upgrade_autosave_checked", 5)
    run.require("name_checks", 200)
    for op in ("save", "load", "load_if_changed", "external", "load_other"):
        run.require(f"op:{op}", 50)
    run.assumptions += ["the independent reader implements Apache's rule: the first record of a key wins, '#' lines and blank lines are not records",
                        "mtimes are forced with os.utime; no verdict depends on wall-clock time",
                        "scratch files live under $TMPDIR and are removed at the end of every shard"]


if __name__ == "__main__":
    main("C16", "exploration", RULE, body)
