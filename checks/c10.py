"""C10 - context config survives export/import; a failed change changes nothing.   (fault enumeration)

(A2) histories: one context object driven through sequences of load()/update() (valid and refused), compared after every
    step - incl. calls carrying a context keyword (user=) - with a context built afresh from its own export; exported
    lists are edited and must not reach the live configuration.
(A) round trips over generated configurations: to_dict / to_string -> new context, copy(), empty update(): same exported
    configuration and the same decisions on a fixed corpus; update(k=v) replaces exactly the given keys.
(B) every kind of invalid change x every position of the offending item, through update(**kw), update(dict), load(dict),
    load(ini string), load(context): the context's fingerprint before the attempt == after.
(C) a harness hasher whose using() raises at the k-th customisation call, k = 1..all calls.
(D) source-free failpoints (sys.monitoring LINE): an InjectedFault is raised at EVERY statement executed during the build
    phase of load()/update() (from entry until _CryptConfig.__init__ has returned - the observed event, not line
    numbers); fingerprint before == after for each of them.
The fingerprint is taken only through public API: to_dict(), to_string(), schemes(), default scheme per category,
identify / needs_update / verify on a corpus, cost of new hashes per category, dummy_verify()."""
import sys

from vlib import hashers as H
from vlib.models import context_policy as M
from vlib.run import main
from checks import c04

RULE = ("case = one (configuration, export format) round trip, or one attempted invalid change / injected fault at one point "
        "with the fingerprint comparison; distinct = distinct (configuration shape, operation, fault kind or statement "
        "location) tuples; for each enumerated configuration the statements of the build phase are injected exhaustively")
PW = c04.PW
CATS = [None, "admin", "staff", "nosuchcat"]


class InjectedFault(Exception):
    pass


def fp_item(fn):
    try:
        return fn()
    except Exception as e:
        return "EXC:" + type(e).__name__


def fingerprint(ctx, corpus, full=True):
    fp = {}
    fp["to_dict"] = fp_item(lambda: sorted((k, repr(v)) for k, v in ctx.to_dict().items()))
    fp["to_string"] = fp_item(lambda: ctx.to_string())
    fp["schemes"] = fp_item(lambda: ctx.schemes())
    for cat in CATS:
        fp[f"default:{cat}"] = fp_item(lambda: ctx.default_scheme(category=cat))
    dec = []
    for hs in corpus:
        for cat in (None, "admin"):
            dec.append((fp_item(lambda: ctx.identify(hs, category=cat)), fp_item(lambda: ctx.needs_update(hs, category=cat)),
                        fp_item(lambda: ctx.verify(PW, hs, category=cat)) if full else None))
    fp["decisions"] = dec
    # the customised hasher objects the context hands out (public: ctx.handler(scheme, category)) carry these settings
    def settings_of(s_, cat_):
        hh_ = ctx.handler(s_, cat_)
        return tuple((k_, repr(getattr(hh_, k_, None))) for k_ in ("default_rounds", "min_desired_rounds", "max_desired_rounds", "vary_rounds", "default_salt_size", "default_ident",
                                                                   "default_variant", "block_size", "parallelism", "version", "truncate_error", "default_algs", "default_marker"))
    hs_ = fp_item(lambda: ctx.schemes())
    fp["handler_settings"] = [(s_, cat_, fp_item(lambda: settings_of(s_, cat_))) for s_ in hs_ for cat_ in (None, "admin")] if isinstance(hs_, (list, tuple)) else hs_
    if full:
        for cat in (None, "admin"):
            def cost():
                hs = ctx.hash(PW, category=cat)
                s = ctx.identify(hs, category=cat)
                return (s, M.cost_of(s, hs) if s in c04.ROUNDS else None)
            def cost():
                hs = ctx.hash(PW, category=cat)
                s = ctx.identify(hs, category=cat)
                h_ = H.get(s)
                base_ = getattr(h_, "wrapped", h_)
                if not hasattr(base_, "from_string") or s in H.PLAIN:
                    return (s, None, None)
                p_ = base_.from_string(h_._unwrap_hash(hs) if hasattr(h_, "wrapped") else hs)
                salt_ = getattr(p_, "salt", None)
                return (s, len(salt_) if hasattr(salt_, "__len__") else None, getattr(p_, "ident", None))
            r = fp_item(cost)
            # the cost of a new hash may vary inside the window (vary_rounds): record the scheme, salt size and ident, not the cost
            fp[f"newhash:{cat}"] = r
        fp["dummy_verify"] = fp_item(lambda: ctx.dummy_verify())
    return fp


def corpus_for(cfg):
    out = []
    for s in cfg["schemes"]:
        if s == "unix_disabled":
            continue
        if s in c04.ROUNDS:
            lo, hi = c04.ROUNDS[s]
            for r in (lo, hi, hi + 1):
                if s == "bsdi_crypt":
                    r |= 1
                try:
                    out.append(c04.corpus_hash(s, r))
                except ValueError:
                    pass
        elif s in EXTRA_INT_OPTS:
            out.append(c04.corpus_hash(s, EXTRA_INT_OPTS[s]["rounds"]))
        else:
            out.append(c04.corpus_hash(s, None))
    out.append("$1$abcdefgh$G//4keteveJp0qb8z2DxG/")
    out.append("not a hash at all")
    return out


# integer-valued options other than costs (they travel through INI text as strings like everything else)
EXTRA_INT_OPTS = {"scrypt": dict(rounds=2, block_size=[1, 2, 4], parallelism=[1, 2, 3]), "fshp": dict(rounds=1, variant=[0, 1, 2, 3, "sha256"])}


def gen_cfg(rng):
    cfg = c04.gen_cfg(rng)
    if rng.random() < 0.25:
        s = rng.choice(list(EXTRA_INT_OPTS))
        has_wildcard = bool(cfg.get("all")) or any(c.get("all") for c in cfg["cats"].values())     # (a wildcard cost option would also apply to the added scheme)
        if s not in cfg["schemes"] and "plaintext" not in cfg["schemes"] and not has_wildcard:
            cfg["schemes"].append(s)
            o = {"rounds": EXTRA_INT_OPTS[s]["rounds"]}
            for k, vals in EXTRA_INT_OPTS[s].items():
                if k != "rounds" and rng.random() < 0.7:
                    o[k] = rng.choice(vals)
            cfg["opts"][s] = o
    # C10 extras: float / percent vary_rounds, string-typed numbers are applied by the rendering style
    for s in cfg["schemes"]:
        if s in c04.ROUNDS and H.get(s).rounds_cost == "linear" and rng.random() < 0.3 and "rounds" not in cfg["opts"].get(s, {}):
            cfg["opts"].setdefault(s, {})["vary_rounds"] = rng.choice([0.125, 0.333, 0.1, "10%", "12.5%", 0.05, 3, 1 / 3, 0.1234567, "57%", "7%", 0.30000000000000004, 2 / 7, 5e-05, 1e-06, 2.5e-05, "1E-3", 1.0, "100%", "1.0"])
    # booleans as real bools and in the documented string spellings (per scheme, for a category, and through the wildcard scheme)
    for s in cfg["schemes"]:
        if s in ("bcrypt", "des_crypt") and rng.random() < 0.5:
            cfg["opts"].setdefault(s, {})["truncate_error"] = rng.choice([True, False, "true", "False", "yes"])
            if cfg["cats"] and rng.random() < 0.5:
                cat = rng.choice(list(cfg["cats"]))
                cfg["cats"][cat].setdefault("opts", {}).setdefault(s, {})["truncate_error"] = rng.choice([True, False])
    if rng.random() < 0.15:
        cfg.setdefault("all", {})["truncate_error"] = rng.choice([True, False])
    return cfg


# ------------------------------------------------------------------------------------------------ (A2) histories
KW_SCHEMES = ["postgres_md5", "oracle10", "msdcc2", "msdcc", "cisco_pix", "cisco_asa"]
KWDS = dict(user="someuser")


def kw_fingerprint(ctx, corpus):
    fp = fingerprint(ctx, corpus, full=False)
    fp["context_kwds"] = fp_item(lambda: sorted(ctx.context_kwds))
    fp["kw-hash"] = fp_item(lambda: ctx.identify(ctx.hash(PW, **KWDS)))
    fp["kw-decisions"] = [(fp_item(lambda: ctx.verify(PW, hs, **KWDS)), fp_item(lambda: ctx.verify_and_update(PW, hs, **KWDS)[0]),
                           fp_item(lambda: ctx.needs_update(hs))) for hs in corpus]
    fp["nokw-decisions"] = [fp_item(lambda: ctx.verify(PW, hs)) for hs in corpus]
    return fp


def histories(run, start, count):
    """one context object driven through a sequence of load()/update() calls (valid ones and refused ones); after every
    step its answers - including calls carrying a context keyword (user=) - equal those of a context built afresh from its export"""
    from passlib.context import CryptContext
    import passlib.hash as PH
    for idx in range(start, start + count):
        rng = run.rng(f"hist{idx}")
        pool = []
        for _ in range(4):
            cfg = c04.gen_cfg(rng)
            try:
                for cat in [None] + list(cfg["cats"]):
                    M.default_scheme(cfg, cat)
                    for s_ in cfg["schemes"]:
                        if s_ in c04.ROUNDS:
                            M.window(cfg, s_, cat, c04.limits(s_))
            except M.Invalid:
                continue
            pool.append((M.render(cfg, rng.randrange(30)), cfg["schemes"]))
        for _ in range(3):
            ks = rng.sample(KW_SCHEMES, rng.choice([1, 1, 2])) + rng.sample(["md5_crypt", "sha256_crypt", "des_crypt"], rng.choice([0, 1, 2]))
            rng.shuffle(ks)
            pool.append((dict(schemes=ks), ks))
        rng.shuffle(pool)
        corpus = ["not a hash"]
        for _, ss in pool:
            for s_ in ss:
                if s_ in KW_SCHEMES:
                    corpus.append(getattr(PH, s_).hash(PW, **KWDS))
                elif s_ != "unix_disabled":
                    corpus.append(c04.corpus_hash(s_, c04.ROUNDS[s_][0] | (1 if s_ == "bsdi_crypt" else 0)) if s_ in c04.ROUNDS else c04.corpus_hash(s_, None))
        corpus = sorted(set(corpus))[:14]
        ctx = CryptContext()
        trail = []
        for step, (kw, ss) in enumerate(pool):
            op = rng.choice(["load-dict", "load-ini", "load-context", "update-schemes", "refused-then-load"])
            try:
                if op == "load-dict":
                    ctx.load(kw)
                elif op == "load-ini":
                    ctx.load(CryptContext(**kw).to_string())
                elif op == "load-context":
                    ctx.load(CryptContext(**kw))
                elif op == "update-schemes":
                    # an update that replaces the scheme list (and the keys naming schemes), keeping nothing that may dangle
                    ctx.load({})
                    ctx.update(**kw)
                else:
                    try:
                        ctx.update(schemes=["md5_crypt", "no_such_scheme_at_all"])
                    except Exception:
                        pass
                    ctx.load(kw)
            except Exception as e:
                run.violation(f"C10|history|{op}|raises|{type(e).__name__}", f"step {step} ({op}) with a valid configuration raised {type(e).__name__}: {str(e)[:100]}", dict(trail=trail, config=kw))
                break
            trail.append((op, kw))
            fresh = CryptContext(**ctx.to_dict())
            a, b = kw_fingerprint(ctx, corpus), kw_fingerprint(fresh, corpus)
            run.case(("history", op, step, bool(set(ss) & set(KW_SCHEMES))), dict(operation=op, step=step, config=kw))
            run.count("history_steps")
            if set(ss) & set(KW_SCHEMES):
                run.count("history_steps_with_context_kwds")
            diff = [k for k in a if a[k] != b[k]]
            if diff:
                det = {k: (str(a[k])[:140], str(b[k])[:140]) for k in diff[:3]}
                run.violation(f"C10|history|after-{op}|{'+'.join(sorted(d.split(':')[0] for d in diff))[:60]}",
                              f"after {step + 1} load/update steps the context answers differently from one built afresh from its own export: {det}",
                              dict(trail=trail, differs=diff))
                break


# ------------------------------------------------------------------------------------------------ (A) round trips
def roundtrips(run, start, count):
    for idx in range(start, start + count):
        try:
            _roundtrip_one(run, idx)
        except Exception as e:
            import traceback
            tb = traceback.format_exc()
            run.violation(f"C10|roundtrip|unexpected-{type(e).__name__}", f"a round-trip operation on a valid context raised {type(e).__name__}: {str(e)[:120]}", dict(index=idx, tb=tb[-700:]))


def _roundtrip_one(run, idx):
    from passlib.context import CryptContext
    for idx in (idx,):
        rng = run.rng(f"rt{idx}")
        cfg = gen_cfg(rng)
        try:
            for cat in [None] + list(cfg["cats"]):
                M.default_scheme(cfg, cat)
                for s in cfg["schemes"]:
                    if s in c04.ROUNDS:
                        M.window(cfg, s, cat, c04.limits(s))
        except M.Invalid:
            continue
        kw = M.render(cfg, idx % 30)
        objects = None
        if idx % 3 == 0:
            # hasher OBJECTS in the scheme list: pre-customised variants of registered hashers and an unregistered custom hasher
            lst = list(cfg["schemes"])
            objs = []
            for s_ in lst:
                h_ = H.get(s_)
                if "salt_size" in getattr(h_, "setting_kwds", ()) and h_.min_salt_size < h_.default_salt_size and rng.random() < 0.7:
                    objs.append(h_.using(salt_size=h_.min_salt_size + 1))
                elif s_ in ("bcrypt", "phpass") and rng.random() < 0.5:
                    objs.append(h_.using(ident=h_.ident_values[1] if s_ == "phpass" else "2a"))
                else:
                    objs.append(s_)
            if idx % 6 == 0:
                import passlib.hash as PH_

                class custom_md5(PH_.md5_crypt):
                    name = "custom_md5"
                    default_salt_size = 3
                objs.append(custom_md5)
            if any(not isinstance(o, str) for o in objs):
                kw = dict(kw, schemes=objs)
                objects = True
        try:
            ctx = CryptContext(**kw)
        except Exception as e:
            run.violation(f"C10|construct|{type(e).__name__}", f"valid configuration refused: {e}", dict(config=kw))
            continue
        corpus = corpus_for(cfg)
        base = fingerprint(ctx, corpus)
        if objects:
            base.pop("to_string", None)
        sh = c04.shape(cfg) + (bool(objects),)
        rp0 = f"import warnings; warnings.simplefilter('ignore')\nfrom passlib.context import CryptContext\nctx = CryptContext(**{kw!r})\n"
        variants = {
            "to_dict": lambda: CryptContext(**ctx.to_dict()),
            "to_dict-load": lambda: _loaded(CryptContext(), ctx.to_dict()),
            "to_string": lambda: CryptContext.from_string(ctx.to_string()),
            "to_string-load": lambda: _loaded(CryptContext(), ctx.to_string()),
            "to_string-section": lambda: CryptContext.from_string(ctx.to_string(section="custom"), section="custom"),
            "copy": lambda: ctx.copy(),
            "using-empty": lambda: ctx.using(),
            "load-context": lambda: _loaded(CryptContext(), ctx),
            "empty-update": lambda: _updated(ctx.copy()),
            "empty-update-dict": lambda: _updated(ctx.copy(), {}),
            "twice": lambda: CryptContext.from_string(CryptContext(**ctx.to_dict()).to_string()),
        }
        if objects:
            # INI text cannot carry hasher objects (passlib documents that export as lossy): only the object-preserving paths
            variants = {k: v for k, v in variants.items() if k in ("copy", "using-empty", "load-context", "empty-update", "empty-update-dict")}
            variants["to_dict-resolve"] = lambda: CryptContext(**ctx.to_dict(resolve=True))
            run.count("object_scheme_configs")
        for label, mk in variants.items():
            try:
                other = mk()
                fp = fingerprint(other, corpus)
                if objects:
                    fp.pop("to_string", None)
            except Exception as e:
                run.violation(f"C10|roundtrip|{label}|raises|{type(e).__name__}", f"{label} of a valid context raised {type(e).__name__}: {str(e)[:100]}", dict(config=kw), rp0)
                continue
            run.case((sh, label), dict(config=kw, operation=label))
            run.count(f"roundtrip:{label}")
            diff = [k for k in base if base[k] != fp.get(k)]
            if diff:
                det = {k: (str(base[k])[:150], str(fp[k])[:150]) for k in diff[:3]}
                mech = f"C10|roundtrip|{label}|{'+'.join(sorted(d.split(':')[0] for d in diff))[:60]}"
                run.violation(mech, f"{label} changes the context: {det}", dict(config=kw, differs=diff), rp0 + f"# compare ctx with the result of {label}")
        # an export is a snapshot: editing exported values (of the context or of a copy) does not reach the live configuration
        for exported in (ctx.to_dict(), ctx.copy().to_dict(), ctx.to_dict(resolve=True)):
            for v in exported.values():
                if isinstance(v, list):
                    v.reverse()
                    v.append("no_such_scheme")
                    run.count("exported_lists_edited")
        _updated(ctx)
        # the original is untouched by all of the above
        again = fingerprint(ctx, corpus)
        if objects:
            again.pop("to_string", None)
        if again != base:
            run.violation("C10|roundtrip|original-changed", "exporting / copying changed the original context", dict(config=kw))
        # update() with the short spelling of a wildcard option (vary_rounds=.., truncate_error=..) replaces the stored all__ value
        for short, newval in (("truncate_error", True), ("truncate_error", False), ("vary_rounds", 3), ("vary_rounds", 0)):
            c2 = ctx.copy()
            before = c2.to_dict()
            if f"all__{short}" not in before and idx % 2:
                continue
            try:
                c2.update(**{short: newval})
            except ValueError:
                continue
            after = c2.to_dict()
            exp = dict(before)
            exp[f"all__{short}"] = newval
            run.case((sh, "update-short-spelling", short, f"all__{short}" in before), None)
            run.count("update_short_spelling")
            if f"all__{short}" in before:
                run.count("update_short_spelling_over_existing")
            if after != exp:
                run.violation(f"C10|update|short-spelling-{short}|{'existing-value-kept' if after.get('all__' + short) == before.get('all__' + short) and before.get('all__' + short) != newval else 'other-keys-touched'}",
                              f"update({short}={newval!r}) on a context with all__{short}={before.get('all__' + short)!r} gives all__{short}={after.get('all__' + short)!r}; other differences: {set(map(str, after.items())) ^ set(map(str, exp.items()))}",
                              dict(config=kw, key=short, value=newval))
        # update() replaces exactly the given keys
        for s in cfg["schemes"]:
            if s in c04.ROUNDS:
                lo, hi = c04.ROUNDS[s]
                key = f"{s}__max_rounds"
                c2 = ctx.copy()
                before = c2.to_dict()
                try:
                    c2.update(**{key: hi + 1000})
                except ValueError:
                    continue
                after = c2.to_dict()
                exp = dict(before)
                exp[key] = hi + 1000
                run.case((sh, "update-one-key"), None)
                run.count("update_one_key")
                if after != exp:
                    run.violation("C10|update|other-keys-touched", f"update({key}=..) changed other keys: {set(after.items()) ^ set(exp.items())}", dict(config=kw, key=key))
                break


def _loaded(c, src):
    c.load(src)
    return c


def _updated(c, *a):
    c.update(*a)
    return c


# ------------------------------------------------------------------------------------------------ (B) invalid changes
def invalid_changes(rng, cfg):
    """(kind, change dict) pairs: every kind of invalid change x every position of the offending item"""
    schemes = list(cfg["schemes"])
    out = []
    for i in range(len(schemes) + 1):
        out.append(("unknown-scheme", dict(schemes=schemes[:i] + ["no_such_scheme"] + schemes[i:])))
        out.append(("duplicate-scheme", dict(schemes=schemes[:i] + [schemes[0]] + schemes[i:])))
        out.append(("scheme-wrong-type", dict(schemes=schemes[:i] + [5] + schemes[i:])))
    for s in schemes:
        out.append(("unknown-option", {f"{s}__no_such_option": 1}))
        out.append(("salt-option", {f"{s}__salt": "abcdefgh"}))
        if s in c04.ROUNDS:
            lo, hi = c04.ROUNDS[s]
            out.append(("min-above-max", {f"{s}__min_rounds": hi, f"{s}__max_rounds": lo}))
            out.append(("default-above-max", {f"{s}__default_rounds": hi, f"{s}__max_rounds": lo, f"{s}__min_rounds": lo}))
            out.append(("negative-vary", {f"{s}__vary_rounds": -1}))
            out.append(("vary-above-1", {f"{s}__vary_rounds": 1.5}))
            out.append(("rounds-not-a-number", {f"{s}__min_rounds": "many"}))
            out.append(("category-min-above-max", {f"admin__{s}__min_rounds": hi, f"admin__{s}__max_rounds": lo}))
    # a change that is fine for one scheme and invalid for another: whatever was already applied to the first must be rolled back
    good = {"fshp": {"fshp__variant": 3}, "scrypt": {"scrypt__block_size": 4, "scrypt__parallelism": 3}, "bcrypt": {"bcrypt__ident": "2a"}, "phpass": {"phpass__ident": "H"},
            "bcrypt_sha256": {"bcrypt_sha256__version": 1}, "scram": {"scram__algs": "sha-1,md5"}, "des_crypt": {"des_crypt__truncate_error": True},
            "md5_crypt": {"md5_crypt__salt_size": 3}, "sha256_crypt": {"sha256_crypt__salt_size": 5}, "pbkdf2_sha256": {"pbkdf2_sha256__salt_size": 3}, "ldap_salted_sha1": {"ldap_salted_sha1__salt_size": 9}}
    for g in schemes:
        if g in good:
            for s in schemes:
                if s != g:
                    out.append(("valid-option-then-unknown-option", dict(good[g], **{f"{s}__no_such_option": 1})))
                    if s in c04.ROUNDS:
                        lo, hi = c04.ROUNDS[s]
                        out.append(("valid-option-then-min-above-max", dict(good[g], **{f"{s}__min_rounds": hi, f"{s}__max_rounds": lo})))
            out.append(("valid-option-then-unknown-scheme", dict(good[g], schemes=schemes + ["no_such_scheme"])))
    real = [s for s in schemes if s != "unix_disabled"]
    for s in real:
        out.append(("default-deprecated", dict(default=s, deprecated=[s])))
        out.append(("category-default-deprecated", {"admin__context__default": s, "admin__context__deprecated": [s]}))
    out += [("all-deprecated", dict(deprecated=list(schemes), default=None)),
            ("default-not-in-schemes", dict(default="md5_crypt" if "md5_crypt" not in schemes else "sha1_crypt")),
            ("deprecated-not-in-schemes", dict(deprecated=["bigcrypt" if "bigcrypt" not in schemes else "lmhash"])),
            ("auto-plus-others", dict(deprecated=["auto", schemes[0]])),
            ("default-wrong-type", dict(default=5)), ("deprecated-wrong-type", dict(deprecated=5)), ("schemes-wrong-type", dict(schemes=5)),
            ("category-schemes", {"admin__context__schemes": schemes[:1]}),
            ("malformed-key-4-parts", {"a__b__c__d": 1}), ("malformed-key-empty-cat", {"__md5_crypt__salt_size": 4}),
            ("unknown-context-keyword", dict(no_such_keyword=1)),
            ("all-salt", {"all__salt": "abcdefgh"})]
    if any(k[0] == "all-deprecated" and k[1]["default"] is None for k in out):
        out = [(k, ({kk: vv for kk, vv in v.items() if vv is not None})) for k, v in out]
    return out


def ini_of(change):
    lines = ["[passlib]"]
    for k, v in change.items():
        if isinstance(v, (list, tuple)):
            v = ", ".join(map(str, v))
        lines.append(f"{k} = {str(v).replace('%', '%%')}")
    return "\n".join(lines) + "\n"


def failed_changes(run, start, count):
    from passlib.context import CryptContext
    for idx in range(start, start + count):
        rng = run.rng(f"fc{idx}")
        cfg = gen_cfg(rng)
        if idx % 3 == 0 and "plaintext" not in cfg["schemes"] and not cfg.get("all") and not any(c.get("all") for c in cfg["cats"].values()):
            # schemes whose non-cost settings are left at the class defaults (the change under test is the first to customise them)
            for s_ in ("fshp", "scrypt"):
                if s_ not in cfg["schemes"]:
                    cfg["schemes"].insert(rng.randrange(len(cfg["schemes"]) + 1) if cfg.get("default") else len(cfg["schemes"]), s_)
                    cfg["opts"][s_] = {"rounds": EXTRA_INT_OPTS[s_]["rounds"]}
        try:
            for cat in [None] + list(cfg["cats"]):
                M.default_scheme(cfg, cat)
                for s in cfg["schemes"]:
                    if s in c04.ROUNDS:
                        M.window(cfg, s, cat, c04.limits(s))
            ctx = CryptContext(**M.render(cfg, idx % 30))
        except Exception:
            continue
        kw = M.render(cfg, idx % 30)
        corpus = corpus_for(cfg)
        base = fingerprint(ctx, corpus)
        run.count("fault_configs")
        changes = invalid_changes(rng, cfg)
        for kind, change in changes:
            ops = {
                "update-kwds": lambda: ctx.update(**{k: v for k, v in change.items()}),
                "update-dict": lambda: ctx.update(dict(change)),
                "load-dict": lambda: ctx.load(dict(ctx.to_dict(), **change)),
                "load-dict-bare": lambda: ctx.load(dict(change)),
                "load-update-flag": lambda: ctx.load(dict(change), update=True),
                "load-ini": lambda: ctx.load(ini_of(dict(ctx.to_dict(), **change))),
            }
            if any(not isinstance(k, str) for k in change):
                continue
            for op, fn in ops.items():
                if op == "load-ini" and any(not isinstance(v, (str, int, float, list)) or (isinstance(v, list) and any(not isinstance(x, str) for x in v)) for v in change.values()):
                    continue
                if op == "load-dict-bare" and "schemes" not in change:
                    continue   # a bare dict without schemes is a different (possibly valid) configuration
                try:
                    fn()
                    failed = None
                except Exception as e:
                    failed = type(e).__name__
                if failed is None:
                    # the change was accepted: not a failed change (restore and go on); counted, not judged here
                    run.count(f"invalid_change_accepted:{kind}")
                    ctx.load(kw)
                    base = fingerprint(ctx, corpus)
                    continue
                after = fingerprint(ctx, corpus, full=True)
                run.case((c04.shape(cfg), kind, op), dict(config=kw, attempted_change=change, via=op, raised=failed))
                run.count(f"failed_change:{op}")
                run.count(f"fault_kind:{kind}")
                run.count("faults")
                diff = [k for k in base if base[k] != after.get(k)]
                if diff:
                    det = {k: (str(base[k])[:120], str(after[k])[:120]) for k in diff[:3]}
                    run.violation(f"C10|failed-change-leaks|{op}|{'+'.join(sorted(set(d.split(':')[0] for d in diff)))[:50]}",
                                  f"after a failed {op} ({kind}: {failed}) the context answers differently: {det}", dict(config=kw, attempted_change=change, via=op),
                                  repro=f"import warnings; warnings.simplefilter('ignore')\nfrom passlib.context import CryptContext\nctx=CryptContext(**{kw!r})\nb=ctx.to_dict()\n"
                                        f"try:\n    # {op}\n    ctx.load(dict(ctx.to_dict(), **{change!r}))\nexcept Exception as e: print('failed:', e)\nprint(ctx.to_dict()==b)")
                    ctx = CryptContext(**kw)
                    base = fingerprint(ctx, corpus)


# ------------------------------------------------------------------------------------------------ (C) raising hasher
def raising_hasher(run, n):
    from passlib.context import CryptContext
    import passlib.utils.handlers as uh
    import passlib.hash as PH

    class Boom(Exception):
        pass
    state = dict(calls=0, fail_at=None)

    class flaky_md5(PH.md5_crypt):
        name = "flaky_md5"

        @classmethod
        def using(cls, **kwds):
            state["calls"] += 1
            if state["fail_at"] is not None and state["calls"] == state["fail_at"]:
                raise Boom("customisation failed")
            return super().using(**kwds)
    for idx in range(n):
        rng = run.rng(f"rh{idx}")
        base_kw = dict(schemes=["sha256_crypt", "md5_crypt", "des_crypt"], default="md5_crypt", deprecated=["des_crypt"], sha256_crypt__max_rounds=2000,
                       admin__sha256_crypt__min_rounds=1500)
        ctx = CryptContext(**base_kw)
        corpus = [c04.corpus_hash("sha256_crypt", 1000), c04.corpus_hash("md5_crypt", None), c04.corpus_hash("des_crypt", None)]
        base = fingerprint(ctx, corpus)
        pos = rng.randrange(4)
        schemes = ["sha256_crypt", "md5_crypt", "des_crypt"]
        schemes.insert(pos, flaky_md5)
        change = dict(schemes=schemes, flaky_md5__salt_size=rng.choice([2, 4]), admin__flaky_md5__salt_size=3, staff__flaky_md5__salt_size=5)
        state.update(calls=0, fail_at=None)
        ok = ctx.copy()
        ok.update(**change)
        total = state["calls"]
        for k in range(1, total + 1):
            for op in ("update", "load"):
                state.update(calls=0, fail_at=k)
                try:
                    (ctx.update(**change) if op == "update" else ctx.load(dict(base_kw, **change)))
                    raised = None
                except Boom:
                    raised = "Boom"
                except Exception as e:
                    raised = type(e).__name__
                state["fail_at"] = None
                after = fingerprint(ctx, corpus)
                run.case(("raising-hasher", pos, k, op), dict(operation=op, scheme_position=pos, fails_at_using_call=k, of_calls=total, raised=raised))
                run.count("faults")
                run.count("raising_hasher_faults")
                if raised is None:
                    run.violation("C10|raising-hasher|not-raised", f"using() raised at call {k} but {op} succeeded", dict(k=k, op=op))
                    ctx = CryptContext(**base_kw)
                    continue
                diff = [x for x in base if base[x] != after[x]]
                if diff:
                    run.violation(f"C10|failed-change-leaks|raising-hasher|{op}", f"a scheme whose customisation raised at call {k} of {total} left the context changed: {diff}",
                                  dict(k=k, op=op, pos=pos))
                    ctx = CryptContext(**base_kw)
                    base = fingerprint(ctx, corpus)


# ------------------------------------------------------------------------------------------------ (D) failpoints
class Injector:
    """raises InjectedFault at the k-th statement of passlib/context.py (and of using() in utils/handlers.py) executed while armed;
    armed from the call of load()/update() until _CryptConfig.__init__ has returned (observed through PY_RETURN)"""

    def __init__(self):
        import passlib.context as C
        import passlib.utils.handlers as UH
        self.mon = sys.monitoring
        self.tool = 4
        self.files = {C.__file__, UH.__file__}
        self.cfg_init = C._CryptConfig.__init__.__code__
        self.armed = False
        self.n = 0
        self.k = None
        self.where = None
        self.mon.use_tool_id(self.tool, "verif-failpoints")
        self.mon.register_callback(self.tool, self.mon.events.LINE, self.on_line)
        self.mon.register_callback(self.tool, self.mon.events.PY_RETURN, self.on_return)
        self.mon.set_events(self.tool, self.mon.events.LINE | self.mon.events.PY_RETURN)

    def close(self):
        self.mon.set_events(self.tool, 0)
        self.mon.free_tool_id(self.tool)

    def on_line(self, code, line):
        if code.co_filename not in self.files:
            return self.mon.DISABLE
        if not self.armed:
            return None
        self.n += 1
        if self.k is not None and self.n == self.k:
            self.armed = False
            self.where = f"{code.co_name}:{line}"
            raise InjectedFault(self.where)
        return None

    def on_return(self, code, offset, retval):
        if code is self.cfg_init and self.armed:
            self.armed = False          # everything after this point is the plain swap of the new configuration
        return None

    def run(self, fn, k):
        self.n, self.k, self.where, self.armed = 0, k, None, True
        try:
            fn()
            return None
        except InjectedFault as e:
            return str(e)
        finally:
            self.armed = False


def failpoints(run, start, count, stride):
    from passlib.context import CryptContext
    inj = Injector()
    try:
        for idx in range(start, start + count):
            rng = run.rng(f"fp{idx}")
            cfg = gen_cfg(rng)
            cfg2 = gen_cfg(rng)
            try:
                kw = M.render(cfg, idx % 30)
                kw2 = M.render(cfg2, (idx + 7) % 30)
                ctx = CryptContext(**kw)
                CryptContext(**kw2)
            except Exception:
                continue
            corpus = corpus_for(cfg)[:6]
            base = fingerprint(ctx, corpus, full=False)
            upd = {k: v for k, v in kw2.items() if k not in ("schemes", "default", "deprecated") and k.split("__")[0] in cfg["schemes"]}
            ops = {"load": lambda: ctx.load(kw2), "update": lambda: ctx.update(**upd) if upd else ctx.update(default=cfg["schemes"][0])}
            for op, fn in ops.items():
                probe = ctx.copy()
                fnp = (lambda: probe.load(kw2)) if op == "load" else (lambda: probe.update(**upd) if upd else probe.update(default=cfg["schemes"][0]))
                try:
                    inj.run(fnp, None)
                except Exception:
                    continue   # this particular change is itself invalid for this context: covered by (B)
                total = inj.n
                run.count(f"failpoint_statements:{op}", total)
                injected = 0
                for k in range(1, total + 1, stride):
                    where = inj.run(fn, k)
                    if where is None:
                        # the fault point was not reached (completed): restore
                        ctx.load(kw)
                        continue
                    injected += 1
                    after = fingerprint(ctx, corpus, full=False)
                    run.evaluations += 1
                    run.distinct.add(f"failpoint|{op}|{where}")
                    run.count("faults")
                    run.count("failpoint_faults")
                    if after != base:
                        diff = [x for x in base if base[x] != after[x]]
                        run.violation(f"C10|failed-change-leaks|failpoint|{op}|{where.split(':')[0]}",
                                      f"a fault injected at statement {k} of {total} ({where}) during {op}() left the context changed: {diff}",
                                      dict(config=kw, change=kw2 if op == "load" else upd, statement=k, where=where))
                        ctx.load(kw)
                        base = fingerprint(ctx, corpus, full=False)
                if len(run.samples) < 12:
                    run.samples.append(dict(operation=op, config=kw, build_phase_statements=total, faults_injected=injected, stride=stride))
                run.count("failpoint_enumerations")
    finally:
        inj.close()


def body(run):
    q = run.tier == "quick"
    nrt = 160 if q else 3200
    run.parallel("checks.c10", "roundtrips", [dict(start=i * (nrt // 16), count=nrt // 16) for i in range(16)], timeout=900 if q else 3600)
    nh = 64 if q else 1600
    run.parallel("checks.c10", "histories", [dict(start=20000 + i * (nh // 16), count=nh // 16) for i in range(16)], timeout=900 if q else 3600)
    run.require("history_steps", 100)
    run.require("history_steps_with_context_kwds", 30)
    run.require("exported_lists_edited", 50)
    nfc = 32 if q else 480
    run.parallel("checks.c10", "failed_changes", [dict(start=1000 + i * (nfc // 16), count=nfc // 16) for i in range(16)], timeout=900 if q else 3600)
    run.parallel("checks.c10", "raising_hasher", [dict(n=1 if q else 6)] * (4 if q else 16), timeout=900)
    nfp = 16 if q else 320
    run.parallel("checks.c10", "failpoints", [dict(start=5000 + i * (nfp // 16), count=nfp // 16, stride=1) for i in range(16)], timeout=1200 if q else 5400)
    run.exhaustive = True
    run.extra["exhaustive_scope"] = "for every enumerated configuration: every statement of the build phase of load()/update() (failpoints), every using() call index (raising hasher), every position of the offending item (invalid changes)"
    run.require("faults", 3000 if q else 50000)
    run.require("failpoint_faults", 2000)
    run.require("raising_hasher_faults", 10)
    run.require("object_scheme_configs", 10)
    run.require("update_short_spelling_over_existing", 10)
    for lab in ("to_dict", "to_string", "copy", "empty-update", "load-context"):
        run.require(f"roundtrip:{lab}", 30)
    for op in ("update-kwds", "update-dict", "load-dict", "load-ini"):
        run.require(f"failed_change:{op}", 30)
    run.assumptions += ["faults are injected only in the build phase (parsing, merging, _CryptConfig construction incl. every handler.using()); the attribute assignments of the final swap cannot fail in a running program and are not injected",
                        "INI export of unregistered custom hashers is documented as lossy by passlib itself and is not judged"]


if __name__ == "__main__":
    main("C10", "fault_enumeration", RULE, body)
