"""C15 - a TOTP configuration survives every serialisation.

Round-trip monitor: generated TOTP objects (keys, algorithms, digits, periods, labels and issuers over a hostile
alphabet, class-level defaults set through using()) are serialised to a provisioning URI, JSON and a dictionary and
loaded back (through the specific loader, from_source() and a factory with different defaults); the oracle is field
equality and token equality at several times.  URIs are additionally parsed by an independent reader (urllib) that
must see the same label / issuer / parameters.  Corrupted sources of the enumerated kinds must raise ValueError."""
import json
import urllib.parse

from vlib import hashers as H
from vlib.run import main
from checks.c13 import ref_hotp

RULE = ("case = one (TOTP object, serialisation format, loader) round trip or one corrupted source; distinct = distinct (format, loader, "
        "algorithm, digits, period class, label class, issuer class) tuples")

HOSTILE = " @/%&=?#+;,'\"<>\\|~!$*()[]{}^`\t"
WORDS = ["alice", "bob@example.org", "Smith & Sons", "R&D", "a b", "x&digits=8", "50% off", "a=b", "q?r#s", "a+b", "semi;colon", "comma,dot.", "üser", "名前", "a/b", "Åsa Öberg", "emoji 🔑",
         "%41", "+", "  padded  ", "x\ty"]


def gen_text(rng, allow_none=True):
    r = rng.random()
    if allow_none and r < 0.12:
        return None
    if r < 0.5:
        return rng.choice(WORDS)
    n = rng.randint(1, 12)
    return "".join(rng.choice(HOSTILE + "abcXYZ019" + "éßж名") for _ in range(n))


def tclass(s):
    if s is None:
        return "none"
    if s != s.strip():
        return "outer-blanks"
    if not s.isascii():
        return "non-ascii"
    if any(c in s for c in "&=?#%+;/"):
        return "uri-special"
    if " " in s:
        return "blank"
    return "plain"


def fields(t):
    return dict(key=t.key, alg=t.alg, digits=t.digits, period=t.period, label=t.label, issuer=t.issuer)


def same(a, b, strip_label=False):
    fa, fb = fields(a), fields(b)
    if strip_label:
        for f in (fa, fb):
            for k in ("label", "issuer"):
                if f[k] is not None:
                    f[k] = f[k].strip() or None
    return [k for k in fa if fa[k] != fb[k]]


def work(run, part, parts):
    from passlib.totp import TOTP
    import warnings
    warnings.simplefilter("ignore")
    rng = run.rng(f"ser{part}")
    n = (16000 if run.tier == "quick" else 800000) // parts

    def class_defaults(c):
        return {k: getattr(c, k, None) for k in ("alg", "digits", "period", "issuer", "label", "min_json_version", "json_version", "wallet")}
    base_defaults = class_defaults(TOTP)
    if base_defaults["alg"] != "sha1" or base_defaults["digits"] != 6 or base_defaults["period"] != 30 or base_defaults["issuer"] is not None:
        run.violation("C15|using|base-class-defaults-not-rfc", f"the TOTP class itself starts with defaults {base_defaults}", {})
    for i in range(n):
        alg = rng.choice(["sha1", "sha1", "sha256", "sha512"])
        digits = rng.choice([6, 6, 7, 8, 10])
        period = rng.choice([30, 30, 1, 60, rng.randint(1, 3600)])
        key = H.pw_bytes(rng, rng.choice([10, 16, 20, 32, 33, 64]), "binary")
        label, issuer = gen_text(rng), gen_text(rng)
        if label is not None and not label.strip():
            label = "x" + label          # (a blank label is no label: the Key-URI format strips it)
        if label is not None and ":" in label:
            label = label.replace(":", ";")
        if issuer is not None and ":" in issuer:
            issuer = issuer.replace(":", ";")
        # class-level defaults through using()
        dflt = {}
        if rng.random() < 0.4:
            dflt = {k: v for k, v in (("digits", rng.choice([6, 8])), ("period", rng.choice([30, 45])), ("alg", rng.choice(["sha1", "sha256"])), ("issuer", rng.choice([None, "Factory Inc"])))
                    if rng.random() < 0.6 and v is not None}
        factory = TOTP.using(**dflt) if dflt else TOTP
        # half of the objects of a customised class simply keep the class defaults (the ordinary use of such a class)
        if dflt and rng.random() < 0.5:
            alg, digits, period = dflt.get("alg", alg), dflt.get("digits", digits), dflt.get("period", period)
            run.count("objects_keeping_factory_defaults")
        kw = dict(key=key, format="raw")
        # leave out values equal to the factory default half of the time, so the default really is in play
        for k, v in (("alg", alg), ("digits", digits), ("period", period)):
            if not (rng.random() < 0.5 and getattr(factory, k) == v):
                kw[k] = v
        if label is not None:
            kw["label"] = label
        if issuer is not None:
            kw["issuer"] = issuer
        w = dict(using=dflt, constructor={k: v for k, v in kw.items()}, label=label, issuer=issuer)
        try:
            obj = factory(**kw)
        except Exception as e:
            run.violation(f"C15|construct|{type(e).__name__}", f"TOTP(**{kw}) raised {type(e).__name__}: {e}", w)
            continue
        times = [0, 59, 1111111109, rng.randrange(2 ** 31), rng.randrange(2 ** 35)]
        want_tokens = [ref_hotp(key, t // obj.period, obj.digits, obj.alg) for t in times]
        if [obj.generate(t).token for t in times] != want_tokens:
            run.violation("C15|construct|tokens-differ-from-rfc", "object built from explicit fields generates non-RFC tokens", w)
            continue
        factory_defaults = class_defaults(factory)
        other_factory = TOTP.using(digits=9, period=77, alg="sha512", issuer="Other Org")
        # making a customised class leaves the class it was derived from, and every sibling, untouched
        run.count("using_isolation_checks")
        if class_defaults(TOTP) != base_defaults:
            run.violation("C15|using|parent-class-defaults-changed", f"TOTP.using(..) changed the defaults of TOTP itself: {base_defaults} -> {class_defaults(TOTP)}", w)
            for k_, v_ in base_defaults.items():
                if getattr(TOTP, k_, None) != v_:
                    setattr(TOTP, k_, v_)
        elif class_defaults(factory) != factory_defaults:
            run.violation("C15|using|sibling-class-defaults-changed", f"TOTP.using(..) changed the defaults of a class made earlier: {factory_defaults} -> {class_defaults(factory)}", w)
        # ---- the three formats
        sources = {}
        try:
            sources["dict"] = obj.to_dict()
            sources["json"] = obj.to_json()
            if obj.label or True:
                sources["uri"] = obj.to_uri(label=obj.label or "fallback label") if obj.label is None else obj.to_uri()
        except Exception as e:
            run.violation(f"C15|serialise|{type(e).__name__}", f"serialising raised {type(e).__name__}: {str(e)[:100]}", w)
            continue
        for fmt, src in sources.items():
            # loading goes through the class that made the object (an issuer equal to the class default is elided by design)
            loaders = {"specific": {"dict": factory.from_dict, "json": factory.from_json, "uri": factory.from_uri}[fmt], "from_source": factory.from_source}
            if factory is TOTP or not dflt.get("issuer"):
                loaders["plain-class"] = TOTP.from_source
            if fmt == "json":
                # the same document as UTF-8 bytes (as read from a file or a database column)
                loaders["json-utf8-bytes"] = lambda s_, _f=factory: _f.from_json(s_.encode("utf-8"))
                loaders["source-utf8-bytes"] = lambda s_, _f=factory: _f.from_source(s_.encode("utf-8"))
                loaders["json-non-ascii-text"] = lambda s_, _f=factory: _f.from_json(json.dumps(json.loads(s_), ensure_ascii=False))
            for lname, loader in loaders.items():
                ww = dict(w, format=fmt, loader=lname, source=src if not isinstance(src, dict) else {k: str(v) for k, v in src.items()})
                rp = ("import warnings; warnings.simplefilter('ignore')\nfrom passlib.totp import TOTP\n"
                      f"src={src!r}\nt=TOTP.from_source(src)\nprint(t.label, t.issuer, t.digits, t.period, t.alg)")
                snap = json.dumps(src, sort_keys=True, default=repr) if isinstance(src, dict) else None
                try:
                    back = loader(src)          # the same source object is offered to every loader in turn
                except Exception as e:
                    run.violation(f"C15|{fmt}|{lname}|load-raises|{type(e).__name__}|label-{tclass(obj.label)}|issuer-{tclass(obj.issuer)}",
                                  f"loading the library's own {fmt} output raised {type(e).__name__}: {str(e)[:100]}", ww, rp)
                    continue
                if snap is not None:
                    run.count("source_dict_untouched_checks")
                    if json.dumps(src, sort_keys=True, default=repr) != snap:
                        run.violation(f"C15|dict|{lname}|source-modified", f"loading a dictionary changed the caller's dictionary: {snap[:120]} -> {json.dumps(src, sort_keys=True, default=repr)[:120]}", ww, rp)
                        src = sources[fmt] = json.loads(snap)
                expect = obj
                ref_label = obj.label if (obj.label is not None or fmt != "uri") else "fallback label"
                diff = same(back, obj, strip_label=(fmt == "uri"))
                if fmt == "uri" and obj.label is None:
                    diff = [d for d in diff if d != "label"]
                    if back.label != "fallback label":
                        diff.append("label")
                if lname == "other-factory" and fmt != "uri":
                    # a factory's default issuer only fills in when the source has none
                    if obj.issuer is None and "issuer" in diff and back.issuer == "Other Org":
                        diff.remove("issuer")
                if lname == "other-factory" and fmt == "uri" and obj.issuer is None and "issuer" in diff and back.issuer == "Other Org":
                    diff.remove("issuer")
                run.case((fmt, lname, obj.alg, obj.digits, "p30" if obj.period == 30 else "other", tclass(obj.label), tclass(obj.issuer), bool(dflt)),
                         dict(ww, loaded=dict(label=back.label, issuer=back.issuer, digits=back.digits, period=back.period, alg=back.alg)))
                run.count(f"roundtrip:{fmt}")
                run.count(f"label:{tclass(obj.label)}")
                run.count(f"issuer:{tclass(obj.issuer)}")
                if diff:
                    run.violation(f"C15|{fmt}|{lname}|field-lost|{'+'.join(sorted(diff))}",
                                  f"{fmt} round trip through {lname} changes {diff}: {[(k, fields(obj)[k], fields(back)[k]) for k in diff][:3]}", ww, rp)
                    continue
                if [back.generate(t).token for t in times] != want_tokens:
                    run.violation(f"C15|{fmt}|{lname}|tokens-differ", f"object loaded from {fmt} generates different codes", ww, rp)
            # independent reader of the URI
            if fmt == "uri":
                try:
                    u = urllib.parse.urlsplit(src)
                    path = urllib.parse.unquote(u.path[1:])
                    q = urllib.parse.parse_qs(u.query, keep_blank_values=True, strict_parsing=True)
                    lab = path.split(":", 1)[1] if ":" in path else path
                    iss_prefix = path.split(":", 1)[0] if ":" in path else None
                    exp_label = obj.label if obj.label is not None else "fallback label"
                    problems = []
                    if u.scheme != "otpauth" or u.netloc != "totp":
                        problems.append("scheme/type")
                    if lab != exp_label:
                        problems.append(f"label {lab!r} != {exp_label!r}")
                    if any(len(v) != 1 for v in q.values()):
                        problems.append("duplicate parameter")
                    if obj.issuer is not None and (q.get("issuer") != [obj.issuer] or iss_prefix != obj.issuer):
                        problems.append(f"issuer param {q.get('issuer')} / prefix {iss_prefix!r} != {obj.issuer!r}")
                    if obj.issuer is None and ("issuer" in q or iss_prefix):
                        problems.append("issuer present")
                    import base64
                    sec = q.get("secret", [""])[0]
                    if base64.b32decode(sec + "=" * (-len(sec) % 8), casefold=True) != key:
                        problems.append("secret")
                    if int(q.get("digits", ["6"])[0]) != obj.digits or int(q.get("period", ["30"])[0]) != obj.period or q.get("algorithm", ["SHA1"])[0].lower() != obj.alg:
                        problems.append("digits/period/algorithm")
                    if set(q) - {"secret", "issuer", "digits", "period", "algorithm"}:
                        problems.append(f"extra parameters {set(q) - {'secret', 'issuer', 'digits', 'period', 'algorithm'}}")
                    if problems:
                        run.violation(f"C15|uri|independent-reader|{problems[0].split(' ')[0]}|issuer-{tclass(obj.issuer)}",
                                      f"an independent URI parser reads the provisioning URI differently: {problems}", dict(w, uri=src))
                    run.count("uri_independent_reads")
                except ValueError as e:
                    run.violation("C15|uri|independent-reader|unparsable", f"the provisioning URI cannot be parsed by urllib: {e}", dict(w, uri=src))
        # re-keyed object: every serialisation follows the new key
        if i % 5 == 0:
            try:
                obj2 = factory(**kw)
                first = (obj2.to_uri(label="x"), obj2.to_json(), obj2.to_dict(), obj2.base32_key, obj2.hex_key, obj2.pretty_key())
                key2 = H.pw_bytes(rng, rng.choice([10, 20, 33]), "binary")
                obj2.key = key2
                loaded = [factory.from_source(obj2.to_uri(label="x")), factory.from_source(obj2.to_json()), factory.from_source(obj2.to_dict()),
                          TOTP(key=obj2.base32_key, format="base32"), TOTP(key=obj2.hex_key, format="hex"), TOTP(key=obj2.pretty_key(), format="base32")]
                run.count("rekeyed_objects")
                run.case(("rekeyed-object",), None)
                stale = [n for n, o in zip(("uri", "json", "dict", "base32_key", "hex_key", "pretty_key"), loaded) if o.key != key2]
                if stale:
                    run.violation(f"C15|rekeyed-object|stale-key|{'+'.join(stale)}", f"after otp.key = <new key> these serialisations still carry the old key: {stale}", dict(w, new_key=key2))
            except Exception as e:
                run.violation(f"C15|rekeyed-object|raises|{type(e).__name__}", f"re-keying and serialising raised {type(e).__name__}: {str(e)[:100]}", w)
        # a live object handed to factories holding (different) application secrets: same key and fields afterwards
        if i % 7 == 0:
            wa = TOTP.using(secrets={"1": "first application secret"})
            wb = TOTP.using(secrets={"1": "another secret under the same tag", "2": "second"})
            try:
                owned = wa(**kw)
                for tname, target in (("other-wallet", wb), ("no-wallet", TOTP), ("same-wallet", wa)):
                    back = target.from_source(owned)
                    run.count("objects_between_wallet_factories")
                    run.case(("object-source", tname), None)
                    diff = same(back, owned)
                    if diff or back.generate(times[3]).token != owned.generate(times[3]).token or back.key != key:
                        run.violation(f"C15|object-source|{tname}|field-lost|{'+'.join(sorted(diff)) or 'tokens'}", f"from_source(<TOTP object of a factory with secrets>) through {tname} changes {diff or 'the codes'}", w)
            except Exception as e:
                run.violation(f"C15|object-source|raises|{type(e).__name__}", f"handing a TOTP object to another factory raised {type(e).__name__}: {str(e)[:100]}", w)
        # to_uri with explicit label / issuer arguments
        if rng.random() < 0.3:
            lab2, iss2 = gen_text(rng, False).replace(":", ";"), gen_text(rng, False).replace(":", ";")
            if lab2.strip():
                try:
                    back = TOTP.from_uri(obj.to_uri(label=lab2, issuer=iss2))
                    if back.label != lab2.strip() or (back.issuer or "").strip() != iss2.strip() or back.key != key:
                        run.violation("C15|uri|explicit-arguments|field-lost", f"to_uri(label={lab2!r}, issuer={iss2!r}) -> from_uri gives label {back.label!r} issuer {back.issuer!r}", w)
                    run.count("uri_explicit_args")
                except Exception as e:
                    run.violation(f"C15|uri|explicit-arguments|{type(e).__name__}", f"to_uri(label={lab2!r}, issuer={iss2!r}) round trip raised {type(e).__name__}: {e}", w)


def corrupted(run):
    from passlib.totp import TOTP
    import warnings
    warnings.simplefilter("ignore")
    good = TOTP(key="S3JDVB7QD2R7JPXX", label="user@example.org", issuer="Example", digits=8, period=45, alg="sha256")
    uri, js, dc = good.to_uri(), good.to_json(), good.to_dict()
    S = "secret=S3JDVB7QD2R7JPXX"
    cases = {
        "conflicting-issuers": f"otpauth://totp/Example:user?{S}&issuer=Other",
        "duplicate-secret": f"otpauth://totp/user?{S}&secret=GEZDGNBVGY3TQOJQ",
        "duplicate-digits": f"otpauth://totp/user?{S}&digits=6&digits=8",
        "duplicate-period": f"otpauth://totp/user?{S}&period=30&issuer=x&period=60",
        "duplicate-issuer": f"otpauth://totp/user?{S}&issuer=a&issuer=b",
        "duplicate-algorithm": f"otpauth://totp/user?{S}&algorithm=SHA1&algorithm=SHA256",
        "triple-secret": f"otpauth://totp/user?{S}&{S}&{S}",
        "missing-secret": "otpauth://totp/user?issuer=Example",
        "empty-secret": "otpauth://totp/user?secret=",
        "missing-label": f"otpauth://totp/?{S}",
        "no-path": f"otpauth://totp?{S}",
        "blank-label": f"otpauth://totp/%20?{S}",
        "blank-label-with-issuer": f"otpauth://totp/Example:%20%20?{S}",
        "unknown-type": f"otpauth://motp/user?{S}",
        "wrong-scheme": f"http://totp/user?{S}",
        "label-with-two-colons": f"otpauth://totp/a:b:c?{S}",
        "digits-not-a-number": f"otpauth://totp/user?{S}&digits=six",
        "digits-out-of-range": f"otpauth://totp/user?{S}&digits=12",
        "period-zero": f"otpauth://totp/user?{S}&period=0",
        "period-negative": f"otpauth://totp/user?{S}&period=-30",
        "unknown-algorithm": f"otpauth://totp/user?{S}&algorithm=SHA9",
        "secret-not-base32": "otpauth://totp/user?secret=!!!!",
        "json-not-json": "{not json",
        "json-missing-version": json.dumps({k: v for k, v in dc.items() if k != "v"}),
        "json-version-0": json.dumps(dict(dc, v=0)),
        "json-version-too-new": json.dumps(dict(dc, v=99)),
        "json-missing-type": json.dumps({k: v for k, v in dc.items() if k != "type"}),
        "json-unknown-type": json.dumps(dict(dc, type="zotp")),
        "json-missing-key": json.dumps({k: v for k, v in dc.items() if k not in ("key", "enckey")}),
        "json-list": "[1, 2]",
        "dict-missing-version": {k: v for k, v in dc.items() if k != "v"},
        "dict-version-too-new": dict(dc, v=2),
        "dict-unknown-type": dict(dc, type="xotp"),
        "dict-missing-key": {k: v for k, v in dc.items() if k != "key"},
        "dict-both-keys": dict(dc, enckey={"c": 1}),
        "dict-bad-digits": dict(dc, digits=3),
    }
    for label, src in cases.items():
        for lname, loader in (("from_source", TOTP.from_source), ("specific", TOTP.from_uri if isinstance(src, str) and src.startswith(("otpauth", "http")) else TOTP.from_dict if isinstance(src, dict) else TOTP.from_json)):
            try:
                r = loader(dict(src) if isinstance(src, dict) else src)
                run.violation(f"C15|corrupted|{label}|accepted", f"corrupted source ({label}) was accepted by {lname}: digits={r.digits} period={r.period} label={r.label!r} issuer={r.issuer!r}",
                              dict(kind=label, source=src if isinstance(src, str) else str(src)),
                              repro=f"from passlib.totp import TOTP\nprint(TOTP.from_source({src!r}))")
            except ValueError:
                run.count("corrupted_refused")
            except Exception as e:
                run.violation(f"C15|corrupted|{label}|{type(e).__name__}", f"corrupted source ({label}) raised {type(e).__name__} ({str(e)[:80]}), not ValueError",
                              dict(kind=label, source=src if isinstance(src, str) else str(src)),
                              repro=f"from passlib.totp import TOTP\nprint(TOTP.from_source({src!r}))")
            run.case(("corrupted", label, lname), dict(corrupted_source=label, loader=lname, source=src if isinstance(src, str) else str(src)))
    # the uncorrupted forms do load (guards against a check that refuses everything)
    for src in (uri, js, dc):
        if same(TOTP.from_source(src), good):
            run.violation("C15|corrupted|baseline-changed", "baseline source does not round trip", dict(source=str(src)))
    try:
        import cryptography  # noqa: F401
    except ImportError:
        run.note("encrypted keys (AppWallet, AES) need the 'cryptography' package, which is not installed: 'an encrypted key decrypts to the original under any still-listed secret' is not exercised")
    # what can be exercised without AES: secrets parsing and default tag selection
    from passlib.totp import AppWallet
    for secrets, default in (({"1": "a" * 20, "2": "b" * 20}, "2"), ("1: aaaaaaaaaaaaaaaaaaaa\n10: bbbbbbbbbbbbbbbbbbbbb", "10"), ({"2016-01-01": "x" * 20, "2017-05-01": "y" * 20}, "2017-05-01"),
                             ('{"5": "cccccccccccccccccccc", "15": "dddddddddddddddddddd"}', "15")):
        wlt = AppWallet(secrets)
        run.case(("wallet", "default-tag", default), dict(wallet_secrets=str(secrets)[:60], default_tag=wlt.default_tag))
        if wlt.default_tag != default or not wlt.has_secrets:
            run.violation("C15|wallet|default-tag", f"AppWallet({secrets!r}).default_tag = {wlt.default_tag!r}, expected the newest tag {default!r}", dict(secrets=str(secrets)))


def body(run):
    P = 16
    run.parallel("checks.c15", "work", [dict(part=i, parts=P) for i in range(P)], timeout=900 if run.tier == "quick" else 3600)
    corrupted(run)
    for f in ("uri", "json", "dict"):
        run.require(f"roundtrip:{f}", 2000)
    for c in ("uri-special", "non-ascii", "blank", "outer-blanks", "none"):
        run.require(f"label:{c}", 50)
        run.require(f"issuer:{c}", 50)
    run.require("corrupted_refused", 40)
    run.require("uri_independent_reads", 500)
    run.require("objects_between_wallet_factories", 100)
    run.require("rekeyed_objects", 500)
    run.require("objects_keeping_factory_defaults", 500)
    run.assumptions += ["leading/trailing blanks of a label or issuer are compared modulo the strip() the Key-URI format documents (URI format only)",
                        "':' is not admissible in labels and issuers (refused by the constructor) and is not generated"]


if __name__ == "__main__":
    main("C15", "exploration", RULE, body)
