"""C20 - libpass hashers and classic passlib hashers understand each other.

Differential monitor between the two APIs (and the independent references): for each format offered by both, hashes made
by one side must verify under the other (and under itself) exactly for the right password, for generated passwords
(incl. the long-password branch of sha-crypt), non-empty salts and costs (incl. the implicit 5000-round spelling);
identify() truth table of every libpass hasher over hashes of ALL passlib formats; needs_update oracle; the libpass
CryptContext (hashes with scheme 0, verifies with any, needs_update exactly for hashes not in scheme 0's format)."""
from vlib import hashers as H
from vlib.refimpl import formats as F
from vlib.run import main

RULE = ("case = one cross-verification (direction, format, password class, salt size, cost) or one identify / needs_update / context "
        "decision; distinct = distinct (format, direction, password length class, cost, salt size) tuples")
PAIRS = ["sha256_crypt", "sha512_crypt", "pbkdf2_sha256", "pbkdf2_sha512", "bcrypt", "bcrypt_sha256"]


def lp_make(name, rounds):
    cls, _ = H.libpass_hashers()[name]
    return cls(rounds=rounds)


def lp_hash(rng, name, rounds, pw):
    """hash through libpass with an explicit generated salt half of the time; returns (hash, salt-size)"""
    hh = lp_make(name, rounds)
    if rng.random() < (0.4 if "bcrypt" not in name else 0.25):
        return hh.hash(pw), None
    if name.endswith("_crypt"):
        salt = "".join(rng.choice(F.H64) for _ in range(rng.choice([1, 2, 8, 15, 16])))
        return hh.hash(pw, salt=salt if rng.random() < 0.5 else salt.encode()), len(salt)
    if name.startswith("pbkdf2"):
        salt = H.pw_bytes(rng, rng.choice([1, 8, 16, 24, 40]), "binary")
        return hh.hash(pw, salt=salt), len(salt)
    import bcrypt
    cost = rounds if rng.random() < 0.4 else (5 if rounds == 4 else 4)     # a salt whose embedded cost differs from the hasher's configured cost
    salt = bcrypt.gensalt(rounds=cost, prefix=rng.choice([b"2a", b"2b"]) if name == "bcrypt" else b"2b")
    return hh.hash(pw, salt=salt), cost


def pw_for(rng, name, i):
    lens = [0, 1, 5, 8, 16, 31, 55, 56, 64, 71, 72, 95, 96, 97, 128, 200, 255]
    ln = lens[i % len(lens)]
    if name == "bcrypt":
        ln = min(ln, 72)
    kind = ("ascii", "text", "binary")[i % 3]
    if kind == "text":
        pw = H.pw_text(rng, max(1, ln // 3))
        if name == "bcrypt" and len(pw.encode()) > 72:
            pw = pw[:20]
        return pw
    pw = H.pw_bytes(rng, ln, kind)
    return pw if i % 2 or not H.is_utf8(pw) else pw.decode()


def other_pw(pw):
    if isinstance(pw, str):
        return ("y" if pw[:1] != "y" else "z") + pw[1:] if pw else "y"
    return (b"y" if pw[:1] != b"y" else b"z") + pw[1:] if pw else b"y"


def cross(run, name, part, parts):
    import passlib.hash as PH
    rng = run.rng(f"cross:{name}:{part}")
    ph = getattr(PH, name)
    n = (600 if run.tier == "quick" else 8000) // parts
    if "bcrypt" in name:
        n = max(10, n // 2)
    costs = {"sha256_crypt": [1000, 1001, 1041, 1042, 1043, 5000, 4999, 2048], "sha512_crypt": [1000, 1001, 1041, 1042, 1043, 5000, 4999, 2048],
             "pbkdf2_sha256": [1, 2, 3, 100, 1000, 1001], "pbkdf2_sha512": [1, 2, 3, 100, 1000, 1001], "bcrypt": [4, 5], "bcrypt_sha256": [4, 5]}[name]
    for i in range(n):
        pw = pw_for(rng, name, i * parts + part)
        secret = pw.encode() if isinstance(pw, str) else pw
        rounds = costs[i % len(costs)]
        lname = f"libpass.{name}"
        lenc = "long" if len(secret) >= 96 else "block" if len(secret) >= 55 else "short"
        # ---- libpass -> passlib
        try:
            lh, ssz = lp_hash(rng, name, rounds, pw)
        except Exception as e:
            run.violation(f"C20|{name}|libpass-hash-raises|{type(e).__name__}", f"libpass {name}.hash raised {type(e).__name__}: {str(e)[:100]}", dict(format=name, password=pw, rounds=rounds))
            continue
        w = dict(format=name, direction="libpass->passlib", password=pw, rounds=rounds, hash=lh, explicit_salt=ssz)
        rp = f"import warnings; warnings.simplefilter('ignore')\nimport passlib.hash as PH\nprint(PH.{name}.verify({pw!r}, {lh!r}))"
        lhh = lp_make(name, rounds)
        # libpass accepts a hash as text or bytes (StrOrBytes): a third of the hashes are handed over as bytes
        as_arg = (lambda x: x.encode("ascii")) if i % 3 == 0 else (lambda x: x)
        if i % 3 == 0:
            run.count("hash_given_as_bytes")
        try:
            r = dict(passlib=ph.verify(pw, lh), passlib_wrong=ph.verify(other_pw(pw), lh), own=lhh.verify(as_arg(lh), pw), own_wrong=lhh.verify(as_arg(lh), other_pw(pw)), ident=lhh.identify(as_arg(lh)),
                     pident=ph.identify(lh))
        except Exception as e:
            run.violation(f"C20|{name}|libpass-hash-not-understood|{type(e).__name__}|{lenc}|{'explicit-salt' if ssz is not None else 'own-salt'}",
                          f"a libpass-made {name} hash makes verify raise {type(e).__name__}: {str(e)[:100]}", w, rp)
            continue
        run.case((name, "libpass->passlib", lenc, rounds, ssz), w)
        run.count(f"cross:{name}")
        run.count(f"lenclass:{lenc}")
        if not (r["passlib"] is True and r["own"] is True and r["ident"] is True and r["pident"] is True) or r["passlib_wrong"] or r["own_wrong"]:
            bad = [k for k, v in r.items() if (v is not True) == (not k.endswith("wrong"))]
            run.violation(f"C20|{name}|libpass-hash|{'+'.join(sorted(bad))}|{lenc}|{'explicit-salt' if ssz is not None else 'own-salt'}",
                          f"libpass-made {name} hash ({len(secret)}-byte password, rounds {rounds}): {r}", dict(w, results=r), rp)
        # its string must name the cost it was computed with: the reference agrees with the string
        try:
            if name.endswith("_crypt"):
                parts_ = lh.split("$")
                want = F.sha_crypt(name[:6], secret, parts_[-2], int(parts_[2].split("=")[1]) if parts_[2].startswith("rounds=") else 5000, implicit_rounds=not parts_[2].startswith("rounds="))
                if want != lh:
                    run.violation(f"C20|{name}|libpass-hash-differs-from-reference|{lenc}", f"libpass {name} hash differs from the specification", dict(w, reference=want))
        except Exception:
            pass
        # needs_update: own fresh hash no; other cost yes
        try:
            nu_own = lhh.needs_update(as_arg(lh))
            nu_other = lp_make(name, rounds + 1 if "bcrypt" not in name else (5 if rounds == 4 else 4)).needs_update(as_arg(lh))
        except Exception as e:
            run.violation(f"C20|{name}|needs_update-raises|{type(e).__name__}", f"libpass needs_update raised {e}", w)
            continue
        exp_own = False
        if "bcrypt" in name and ssz is not None and ssz != rounds:
            exp_own = True         # hashed with a salt of another cost: the hash has that cost
        if nu_own is not exp_own or (nu_other is not True and not ("bcrypt" in name and ssz is not None and ssz != rounds)):
            run.violation(f"C20|{name}|needs_update|own-{nu_own}-other-{nu_other}", f"libpass {name}: needs_update(own fresh hash)={nu_own} (expected {exp_own}), under another cost={nu_other}", w)
        # ---- passlib -> libpass
        slist = [dict(rounds=rounds)]
        h0 = ph
        if "salt_size" in ph.setting_kwds and ph.max_salt_size != ph.min_salt_size:
            slist[0]["salt_size"] = rng.choice([1, 2, 8, 16]) if name.endswith("_crypt") else rng.choice([1, 8, 16, 32])
        if name == "bcrypt":
            slist[0]["ident"] = rng.choice(["2a", "2b", "2y"])
        try:
            pmade = ph.using(**slist[0]).hash(pw)
        except ValueError:
            continue
        variants = [("canonical", pmade)]
        if name.endswith("_crypt") and rounds == 5000:
            body = pmade.split("$")
            if body[2].startswith("rounds="):
                variants.append(("implicit-5000", "$".join(body[:2] + body[3:])))
            else:
                variants.append(("explicit-5000", "$".join(body[:2] + ["rounds=5000"] + body[2:])))
        for vlabel, phs in variants:
            w2 = dict(format=name, direction="passlib->libpass", password=pw, settings=slist[0], hash=phs, spelling=vlabel)
            rp2 = f"from libpass.hashers import *\n# libpass hasher for {name}\n"
            try:
                ok, bad = lhh.verify(as_arg(phs), pw), lhh.verify(as_arg(phs), other_pw(pw))
                ident = lhh.identify(as_arg(phs))
            except Exception as e:
                run.violation(f"C20|{name}|passlib-hash-not-understood|{type(e).__name__}|{lenc}", f"libpass {name} raises {type(e).__name__} on a passlib-made hash ({vlabel}): {str(e)[:100]}", w2)
                continue
            run.case((name, "passlib->libpass", lenc, rounds, vlabel, slist[0].get("salt_size"), slist[0].get("ident")), w2)
            run.count(f"cross:{name}")
            if ok is not True or bad or ident is not True:
                run.violation(f"C20|{name}|passlib-hash|{'rejected' if ok is not True else 'wrong-password-accepted' if bad else 'not-identified'}|{lenc}|{vlabel}",
                              f"passlib-made {name} hash ({vlabel}, {len(secret)}-byte password): libpass verify={ok} wrong-password={bad} identify={ident}", w2)
            exp_nu = (5000 if vlabel.endswith("5000") else rounds) != rounds
            if lhh.needs_update(as_arg(phs)) is not exp_nu:
                run.violation(f"C20|{name}|needs_update|passlib-hash|expected-{exp_nu}", f"libpass {name}(rounds={rounds}).needs_update({vlabel} passlib hash) != {exp_nu}", w2)


def identify_table(run):
    """a libpass hasher identifies exactly its own format"""
    import passlib.hash as PH
    rng = run.rng("identify")
    lp = {n: lp_make(n, H.libpass_hashers()[n][1]["rounds"]) for n in PAIRS}
    n = 0
    for fmt in H.names():
        if not H.usable(fmt) or fmt in H.DISABLED:
            continue
        h = H.get(fmt)
        for st in H.settings_list(h, rng, "quick", n_random=1)[: (3 if run.tier == "quick" else 10)]:
            if st.get("rounds") and h.rounds_cost == "linear" and st["rounds"] > 1100:
                continue
            if fmt in PAIRS and "salt" in st and len(st["salt"]) == 0:
                continue          # (the property quantifies over non-empty salts)
            try:
                hs = H.apply(h, st).hash("pw", **H.ctx_for(h, rng, simple=True))
            except Exception:
                continue
            for lname, lh in lp.items():
                own = (fmt == lname) or (lname == "bcrypt" and fmt == "bcrypt" )
                if fmt == "bcrypt" and lname == "bcrypt" and hs.startswith("$2$"):
                    own = False      # libpass documents 2a/2b/2y only
                if fmt == "bcrypt_sha256" and lname == "bcrypt_sha256" and not hs.startswith("$bcrypt-sha256$v=2"):
                    own = False      # the legacy v1 spelling is a different format for libpass
                try:
                    got = lh.identify(hs)
                    nu = lh.needs_update(hs)
                except Exception as e:
                    run.violation(f"C20|{lname}|identify-raises|{type(e).__name__}", f"libpass {lname}.identify/needs_update raised {type(e).__name__} on a {fmt} hash", dict(hash=hs))
                    continue
                n += 1
                run.trivial()
                if got is not own:
                    run.violation(f"C20|{lname}|identify|{'misses-own' if own else 'claims-' + fmt}", f"libpass {lname}.identify({fmt} hash) = {got}", dict(libpass=lname, format=fmt, hash=hs))
                if not own and nu is not True:
                    run.violation(f"C20|{lname}|needs_update|foreign-format-{fmt}", f"libpass {lname}.needs_update({fmt} hash) = {nu}, expected True", dict(libpass=lname, format=fmt, hash=hs))
        run.case(("identify-table", fmt), dict(format=fmt, libpass_hashers=list(lp)))
    run.count("identify_cells", n)
    for junk in ("", "x", "$5$", "$2b$04$short", "$pbkdf2-sha256$abc$def$ghi", "not a hash", "$6$rounds=1000$" + "a" * 100):
        for lname, lh in lp.items():
            try:
                if lh.identify(junk) or lh.verify(junk, "pw") or lh.needs_update(junk) is not True:
                    run.violation(f"C20|{lname}|junk-accepted", f"libpass {lname} accepts {junk!r}", dict(string=junk))
            except Exception as e:
                run.violation(f"C20|{lname}|junk-raises|{type(e).__name__}", f"libpass {lname} raises {type(e).__name__} on {junk!r}: {str(e)[:80]}", dict(string=junk))


def context(run):
    from libpass.context import CryptContext
    rng = run.rng("ctx")
    cheap = {n: H.libpass_hashers()[n][1]["rounds"] for n in PAIRS}
    for i in range(200 if run.tier == "quick" else 3000):
        k = rng.choice([1, 2, 3, 3, 4, 5])
        names = rng.sample(PAIRS, k)
        hashers = [lp_make(n, cheap[n]) for n in names]
        ctx = CryptContext(schemes=hashers)
        pw = H.pw_bytes(rng, rng.choice([1, 8, 20, 60]), "ascii").decode()
        w = dict(schemes=names, password=pw)
        try:
            made = ctx.hash(pw)
        except Exception as e:
            run.violation(f"C20|context|hash-raises|{type(e).__name__}", f"libpass context hash raised {e}", w)
            continue
        run.case(("context", k, names[0]), dict(w, hash=made))
        run.count("context_cases")
        if not hashers[0].identify(made) or any(h.identify(made) for h in hashers[1:] if type(h) is not type(hashers[0])):
            run.violation("C20|context|hash-not-from-first-scheme", f"context with schemes {names} produced {made[:30]!r}", w)
        if ctx.needs_update(made) is not False:
            run.violation(f"C20|context|own-hash-needs-update|{k}-schemes", f"context with {k} schemes {names}: its own fresh hash needs updating", dict(w, hash=made))
        for j, (n_, h) in enumerate(zip(names, hashers)):
            hs = h.hash(pw)
            try:
                v, bad, nu = ctx.verify(pw, hs), ctx.verify(pw + "x", hs), ctx.needs_update(hs)
            except Exception as e:
                run.violation(f"C20|context|raises|{type(e).__name__}", f"libpass context raised {e}", dict(w, scheme=n_))
                continue
            run.trivial()
            if v is not True or bad:
                run.violation(f"C20|context|verify|scheme-{j}-of-{k}", f"context {names}: hash of scheme {j} ({n_}): verify={v} wrong-password={bad}", dict(w, scheme=n_, hash=hs))
            if nu is not (j != 0):
                run.violation(f"C20|context|needs_update|scheme-{j}-of-{k}|got-{nu}", f"context {names}: needs_update(hash of scheme {j}, {n_}) = {nu}, expected {j != 0}", dict(w, scheme=n_, hash=hs))
        # hashes in the first scheme's format made elsewhere (another cost, passlib's hasher, implicit-rounds spelling): verified, no update asked
        import passlib.hash as PH
        first = names[0]
        other_cost = cheap[first] + 1 if "bcrypt" not in first else (5 if cheap[first] == 4 else 4)
        same_format = [("libpass-other-cost", lp_make(first, other_cost).hash(pw)), ("passlib-other-cost", getattr(PH, first).using(rounds=other_cost).hash(pw))]
        if first.endswith("_crypt"):
            same_format.append(("implicit-5000", getattr(PH, first).using(rounds=5000).hash(pw)))
        for lab, hs in same_format:
            try:
                v, nu = ctx.verify(pw, hs), ctx.needs_update(hs)
            except Exception as e:
                run.violation(f"C20|context|raises|{type(e).__name__}", f"libpass context raised {e} on a {lab} hash of its first scheme", dict(w, hash=hs))
                continue
            run.count("context_same_format_cases")
            run.case(("context", "same-format", lab, first), None)
            if v is not True or nu is not False:
                run.violation(f"C20|context|first-scheme-format|{lab}|verify-{v}-needs_update-{nu}",
                              f"context {names}: a {first} hash made elsewhere ({lab}) gives verify={v} needs_update={nu}; the context asks for an update exactly for hashes not in its first scheme's format", dict(w, hash=hs, kind=lab))
        # foreign hashes
        foreign = H.get("md5_crypt").hash(pw)
        if ctx.verify(pw, foreign) is not False or ctx.needs_update(foreign) is not True:
            run.violation("C20|context|foreign-hash", f"context {names}: md5_crypt hash verify/needs_update wrong", w)
    # cost migration: the same hasher class twice with different costs - the first one is the policy
    for name in PAIRS:
        lo = cheap[name]
        other = lo + 1 if "bcrypt" not in name else (5 if lo == 4 else 4)
        for first_cost, second_cost in ((lo, other), (other, lo)):
            h1, h2 = lp_make(name, first_cost), lp_make(name, second_cost)
            ctx = CryptContext(schemes=[h1, h2])
            pw = "migration pw"
            w = dict(schemes=[f"{name}(rounds={first_cost})", f"{name}(rounds={second_cost})"], password=pw)
            try:
                made = ctx.hash(pw)
                res = dict(own_verify=ctx.verify(pw, made), own_needs_update=ctx.needs_update(made), own_from_first=h1.needs_update(made) is False,
                           old_verify=ctx.verify(pw, h2.hash(pw)), wrong=ctx.verify(pw + "x", made))
            except Exception as e:
                run.violation(f"C20|context|same-class-twice|raises|{type(e).__name__}", f"libpass context with {w['schemes']} raised {type(e).__name__}: {str(e)[:100]}", w)
                continue
            run.count("context_same_class_twice")
            run.case(("context", "same-class-twice", name, first_cost < second_cost), dict(w, hash=made))
            if res != dict(own_verify=True, own_needs_update=False, own_from_first=True, old_verify=True, wrong=False):
                run.violation(f"C20|context|same-class-twice|{'+'.join(k for k, v in res.items() if v is not (k in ('own_verify', 'own_from_first', 'old_verify')))}",
                              f"libpass context with {w['schemes']}: {res} (its own fresh hash must verify, come from the first scheme and need no update)", dict(w, hash=made, results=res))
    try:
        CryptContext(schemes=[])
        run.violation("C20|context|empty-scheme-list-accepted", "libpass context accepts an empty scheme list", {})
    except ValueError:
        pass


def body(run):
    shards = [dict(name=n, part=p, parts=4) for n in PAIRS for p in range(4)]
    run.parallel("checks.c20", "cross", shards, timeout=900 if run.tier == "quick" else 3600)
    identify_table(run)
    context(run)
    for n in PAIRS:
        run.require(f"cross:{n}", 12)
    run.require("lenclass:long", 10)
    run.require("identify_cells", 500)
    run.require("context_cases", 30)
    run.require("context_same_format_cases", 60)
    run.require("context_same_class_twice", 10)
    run.require("hash_given_as_bytes", 50)
    run.assumptions += ["bcrypt passwords are limited to 72 bytes (the limit the bcrypt library itself enforces)",
                        "libpass BcryptSHA256Hasher implements the v=2 PHC spelling only; BcryptHasher the 2a/2b/2y idents"]


if __name__ == "__main__":
    main("C20", "exploration", RULE, body)
