"""C19 - first use from several threads behaves like first use from one.

Schedule exploration with the deterministic line-level scheduler of vlib/sched.py: for every target (a fresh
LazyCryptContext with and without onload, a fresh LazyBase64Engine, freshly reloaded multi-backend hashers, an unloaded
registry name, the first fill of a context's record caches) ALL single-preemption interleavings of two threads making
their first calls are enumerated over the statements of the anchored files (thread A runs k statements, thread B runs
to completion, A finishes - for every k), two-preemption and three-thread schedules are sampled; the oracle is the
result a single thread obtains.  Plus free-running stress with injected yields, and after-initialisation independence
of concurrent hash / verify calls on shared hashers and contexts."""
import importlib
import sys
import threading
import time

from vlib import hashers as H
from vlib.run import main

RULE = ("case = one forced schedule (target, preemption points) of 2-3 threads making their first calls, judged against the "
        "single-thread result; distinct = distinct (target, preemption location) tuples; all single-preemption schedules of two "
        "threads over the statements of the anchored files are enumerated for every target")

MD5_HASH = "$1$abcdefgh$IQtUouv7y7Q9dRWkQEPCc."        # md5_crypt of 'pw'


def targets():
    """name -> (files, make, call, description).  make() must return a FRESH object whose first use is still ahead."""
    import passlib.context as C
    import passlib.utils.binary as B
    import passlib.utils.handlers as UH
    import passlib.registry as R
    import passlib.utils as U
    t = {}

    def mk_lazy(onload=False):
        def make():
            if onload:
                return C.LazyCryptContext(onload=lambda **kw: dict(schemes=["sha256_crypt", "md5_crypt", "des_crypt"], deprecated=["des_crypt"]), marker=1)
            return C.LazyCryptContext(schemes=["sha256_crypt", "md5_crypt", "des_crypt"], deprecated=["des_crypt"])
        return make
    call_ctx = lambda ctx: (ctx.identify(MD5_HASH), ctx.verify("pw", MD5_HASH), ctx.verify("no", MD5_HASH), ctx.needs_update(MD5_HASH))
    t["LazyCryptContext"] = ([C.__file__], mk_lazy(False), call_ctx, "two first calls on a fresh LazyCryptContext")
    t["LazyCryptContext-onload"] = ([C.__file__], mk_lazy(True), call_ctx, "same with an onload callback")
    t["LazyCryptContext-schemes"] = ([C.__file__], mk_lazy(False), lambda ctx: tuple(ctx.schemes()), "attribute style first use")
    t["LazyBase64Engine"] = ([B.__file__], lambda: B.LazyBase64Engine(B.HASH64_CHARS), lambda e: (e.encode_bytes(b"abc"), e.decode_bytes(b"abcd")), "fresh lazy base64 engine")

    def fresh_handler(modname, attr):
        def make():
            mod = importlib.import_module(modname)
            importlib.reload(mod)
            return getattr(mod, attr)
        return make
    import passlib.handlers.md5_crypt as M5
    import passlib.handlers.sha2_crypt as S2
    import passlib.handlers.des_crypt as DC
    t["md5_crypt-verify"] = ([UH.__file__, M5.__file__], fresh_handler("passlib.handlers.md5_crypt", "md5_crypt"), lambda h: h.verify("pw", MD5_HASH), "first verify on an unloaded backend hasher")
    t["md5_crypt-hash"] = ([UH.__file__, M5.__file__], fresh_handler("passlib.handlers.md5_crypt", "md5_crypt"), lambda h: h.using(salt="abcdefgh").hash("pw"), "first hash")
    t["sha256_crypt-hash"] = ([UH.__file__, S2.__file__], fresh_handler("passlib.handlers.sha2_crypt", "sha256_crypt"), lambda h: h.using(salt="abcdefgh", rounds=1000).hash("pw"), "first hash")
    t["des_crypt-has_backend+hash"] = ([UH.__file__, DC.__file__], fresh_handler("passlib.handlers.des_crypt", "des_crypt"),
                                       lambda h: (h.using(salt="ab").hash("pw"), h.has_backend("builtin"), h.using(salt="ab").hash("pw")), "hash / has_backend / hash")

    def fresh_context():
        return C.CryptContext(schemes=["sha256_crypt", "sha1_crypt", "md5_crypt", "des_crypt"], admin__sha256_crypt__min_rounds=2000)
    t["CryptContext-record-cache"] = ([C.__file__], fresh_context, lambda ctx: (ctx.identify(MD5_HASH), ctx.verify("pw", MD5_HASH), ctx.identify(MD5_HASH, category="admin"),
                                                                               ctx.needs_update(MD5_HASH, category="admin")), "first fill of the record caches")

    def fresh_registry_name():
        import passlib.hash as PH
        name = "fshp"
        R._handlers.pop(name, None)
        sys.modules.pop("passlib.handlers.fshp", None)
        PH.__dict__.pop(name, None)
        return name
    import passlib.handlers.fshp as FS
    t["registry-unloaded-name"] = ([R.__file__, FS.__file__], fresh_registry_name,
                                   lambda name: (lambda h: (h.name, h.using(rounds=1, salt=b"s").hash("pw")))(R.get_crypt_handler(name)), "lazy import of a registry entry")
    return t


def norm(res):
    return res


def explore(run, tname, mode):
    from vlib.sched import Scheduler
    files, make, call, desc = targets()[tname]
    sch = Scheduler(files, grace=0.08 if "registry" not in tname else 0.15)
    try:
        # single-thread oracle, and the number of A's yield points
        solo, tr, info, _ = sch.run(make, {"A": call}, [], names=["A"])
        if solo["A"][0] != "ok":
            run.violation(f"C19|{tname}|single-thread-fails", f"{tname}: a single thread fails: {solo['A']}", dict(target=tname))
            return
        want = solo["A"]
        na = info["steps"]["A"]
        run.count(f"yield_points:{tname}", na)
        ks = list(range(1, na + 1))
        if mode == "p1" and run.tier == "quick" and na > 100000:
            # quick tier: every statement of the anchored lazy-init functions, every other elsewhere
            rng = run.rng(tname)
            ks = sorted(set(ks[::2]) | set(ks[:60]) | set(rng.sample(ks, 40)))
        schedules = []
        if mode == "p1":
            schedules = [([("A", k), ("B", 10 ** 7)], ("k", k)) for k in ks]
        elif mode == "p2":
            rng = run.rng(tname + "p2")
            for _ in range(120 if run.tier == "quick" else 2500):
                k1, k2 = rng.randint(1, na), rng.randint(1, na)
                schedules.append(([("A", k1), ("B", k2), ("A", 10 ** 7)], ("k1k2", k1, k2)))
        elif mode == "t3":
            rng = run.rng(tname + "t3")
            for _ in range(80 if run.tier == "quick" else 1500):
                k1, k2, k3 = rng.randint(1, na), rng.randint(1, na), rng.randint(1, na)
                schedules.append(([("A", k1), ("B", k2), ("C", k3), ("A", 10 ** 7)], ("k1k2k3", k1, k2, k3)))
        pairs = set()
        for sched, label in schedules:
            names = ["A", "B", "C"] if mode == "t3" else ["A", "B"]
            res, trace, info, obj = sch.run(make, {n: call for n in names}, list(sched), names=names)
            run.evaluations += 1
            run.count(f"schedules:{tname}")
            run.count("schedules")
            run.count("blocked_on_lock_events", info["blocked_events"])
            # where the preemption happened
            kpos = ("?", 0)       # where thread A stood when the scheduler first switched away from it
            for (a, pa), nxt in zip([t_[:2] for t_ in trace], [t_[:2] for t_ in trace[1:]]):
                if a == "A" and nxt[0] != "A" and isinstance(pa, tuple):
                    kpos = pa
                    break
            run.distinct.add(f"{tname}|{mode}|{kpos[0]}:{kpos[1]}")
            for ta, tb in zip(trace, trace[1:]):
                (a, pa), (b, pb) = ta[:2], tb[:2]
                if a != b and isinstance(pa, tuple) and isinstance(pb, tuple):
                    pairs.add((pa, pb))
            if info["stuck"]:
                # a loaded machine can starve a thread for seconds: repeat the schedule once with generous waits
                # before calling it a deadlock
                slow = Scheduler.__new__(Scheduler)
                slow.__dict__.update(sch.__dict__)
                slow.grace = 2.0
                res, trace, info, obj = slow.run(make, {n: call for n in names}, list(sched), names=names)
                run.count("stuck_schedules_repeated")
            if info["stuck"]:
                run.violation(f"C19|{tname}|deadlock", f"{tname}: all threads blocked (schedule {label})", dict(target=tname, schedule=label, trace=[str(x) for x in trace[-8:]]))
                continue
            bad = {n: r for n, r in res.items() if r != want}
            missing = [n for n in names if n not in res]
            if bad or missing:
                kinds = sorted({(r[1] if r[0] == "exc" else "wrong-result") for r in bad.values()} | ({"no-result"} if missing else set()))
                run.violation(f"C19|{tname}|first-use-race|{'+'.join(kinds)}",
                              f"{tname}: with thread A preempted after {label[1:]} statement(s) (at {kpos[0]}:{kpos[1]}) a thread's first call gives {list(bad.values())[:2]}; a single thread gets {want}",
                              dict(target=tname, description=desc, schedule=label, preempted_at=f"{kpos[0]}:{kpos[1]}", results={k: v for k, v in res.items()}, single_thread=want,
                                   trace_tail=[str(x) for x in trace[max(0, label[1] - 3):label[1] + 4]]),
                              repro=f"# deterministic schedule: target={tname} mode={mode} schedule={label}\n# re-run: VERIF_SEED={run.seed} ./vcheck C19 {run.tier}")
                continue
            # the object is usable afterwards
            try:
                if "registry" not in tname:
                    after = call(obj)
                    if ("ok", after) != want:
                        run.violation(f"C19|{tname}|unusable-afterwards", f"{tname}: object gives {after} after concurrent first use", dict(target=tname, schedule=label))
            except Exception as e:
                run.violation(f"C19|{tname}|unusable-afterwards|{type(e).__name__}", f"{tname}: object unusable after concurrent first use: {type(e).__name__}: {e}", dict(target=tname, schedule=label))
        run.extra.setdefault("adjacent_cross_thread_line_pairs", {})[f"{tname}|{mode}"] = len(pairs)
        if len(run.samples) < 12:
            run.samples.append(dict(target=tname, mode=mode, description=desc, yield_points_of_one_thread=na, schedules=len(schedules), distinct_cross_thread_line_pairs=len(pairs),
                                    single_thread_result=str(want)[:120]))
    finally:
        sch.close()


def stress(run, tname, iters, nthreads):
    """free-running threads, yields injected at LINE events of the target files"""
    import random
    files, make, call, desc = targets()[tname]
    mon = sys.monitoring
    tool = 2
    rnd = random.Random(f"{run.seed}:{tname}")
    fs = set(files)

    def on_line(code, line):
        if code.co_filename not in fs:
            return mon.DISABLE
        if rnd.random() < 0.35:
            time.sleep(0)
        return None
    mon.use_tool_id(tool, "verif-yield")
    mon.register_callback(tool, mon.events.LINE, on_line)
    mon.set_events(tool, mon.events.LINE)
    old = sys.getswitchinterval()
    sys.setswitchinterval(1e-6)
    try:
        want = ("ok", call(make()))
        for i in range(iters):
            obj = make()
            res = {}
            barrier = threading.Barrier(nthreads)

            def worker(k):
                barrier.wait()
                try:
                    res[k] = ("ok", call(obj))
                except BaseException as e:
                    res[k] = ("exc", type(e).__name__, str(e)[:120])
            ths = [threading.Thread(target=worker, args=(k,), daemon=True) for k in range(nthreads)]
            for t in ths:
                t.start()
            for t in ths:
                t.join(180)
            run.evaluations += 1
            run.count("stress_rounds")
            bad = {k: v for k, v in res.items() if v != want}
            if bad or len(res) != nthreads:
                kinds = sorted({(r[1] if r[0] == "exc" else "wrong-result") for r in bad.values()}) or ["no-result"]
                run.violation(f"C19|{tname}|first-use-race|{'+'.join(kinds)}", f"{tname}: free-running stress ({nthreads} threads): {list(bad.values())[:2]} instead of {want}",
                              dict(target=tname, mode="stress", iteration=i, results=list(bad.values())[:4]))
                break
        run.distinct.add(f"{tname}|stress")
    finally:
        sys.setswitchinterval(old)
        mon.set_events(tool, 0)
        mon.free_tool_id(tool)


def independence(run, part):
    """after initialisation: concurrent hash / verify on shared hashers and contexts are independent of each other"""
    from passlib.context import CryptContext
    import passlib.hash as PH
    import passlib.apps as A
    rng = run.rng(f"indep{part}")
    hashers = [PH.md5_crypt, PH.sha256_crypt.using(rounds=1000), PH.des_crypt, PH.pbkdf2_sha256.using(rounds=5), PH.bcrypt.using(rounds=4), PH.ldap_salted_sha1, PH.nthash, PH.sha1_crypt.using(rounds=7)]
    ctx = CryptContext(schemes=["sha256_crypt", "md5_crypt", "des_crypt"], sha256_crypt__max_rounds=1200, deprecated=["des_crypt"])
    nthreads = 16 if run.tier == "quick" else 32
    per = 12 if run.tier == "quick" else 250
    # expected values computed single-threaded
    plan = {}
    for t in range(nthreads):
        jobs = []
        for j in range(per):
            h = rng.choice(hashers)
            pw = f"pw-{part}-{t}-{j}-" + "".join(rng.choice("abcXYZ") for _ in range(rng.randint(0, 5)))
            salt = H.gen_salt(h, rng) if "salt" in getattr(h, "setting_kwds", ()) else None
            exp = h.using(salt=salt).hash(pw) if salt is not None else h.hash(pw)
            jobs.append((h, pw, salt, exp))
        plan[t] = jobs
    old = sys.getswitchinterval()
    sys.setswitchinterval(1e-6)
    errors = []
    barrier = threading.Barrier(nthreads)

    def worker(t):
        barrier.wait()
        for h, pw, salt, exp in plan[t]:
            try:
                got = h.using(salt=salt).hash(pw) if salt is not None else h.hash(pw)
                v = h.verify(pw, exp)
                v2 = h.verify("x" + pw, exp)
                c = ctx.verify_and_update(pw, ctx.hash(pw))
                if got != exp or v is not True or v2 is not False or c != (True, None):
                    errors.append((h.name, pw, got, exp, v, v2, c))
            except BaseException as e:
                errors.append((h.name, pw, type(e).__name__, str(e)[:100]))
    try:
        ths = [threading.Thread(target=worker, args=(t,), daemon=True) for t in range(nthreads)]
        for t in ths:
            t.start()
        for t in ths:
            t.join(300)
    finally:
        sys.setswitchinterval(old)
    run.evaluations += nthreads * per
    run.count("independence_calls", nthreads * per)
    run.distinct.add(f"independence|{part}")
    if errors:
        run.violation(f"C19|after-init|result-depends-on-other-threads|{errors[0][0]}", f"concurrent hash/verify on shared hashers: {len(errors)} wrong results, e.g. {errors[0][:4]}",
                      dict(errors=[str(e)[:200] for e in errors[:4]]))


def first_bcrypt_family(run, name, nthreads):
    """fresh process, nothing loaded: several threads make the first bcrypt-family call at once; every one must get the right answer"""
    import threading
    from vlib.refimpl import formats as F
    import passlib.hash as PH
    h = getattr(PH, name)
    salt22 = "abcdefghijklmnopqrstuu"
    pw = "first call pw"
    if name == "bcrypt_sha256":
        good = F.bcrypt_sha256(pw.encode(), salt22, 4, "$2b$", 2)
    elif name == "bcrypt":
        good = F.bcrypt(pw.encode(), salt22, 4, "$2b$")
    else:
        return
    sys.setswitchinterval(1e-6)
    barrier = threading.Barrier(nthreads)
    out = [None] * nthreads

    def work(i):
        barrier.wait()
        try:
            out[i] = (h.verify(pw, good), h.verify(pw + "x", good))
        except Exception as e:
            out[i] = "EXC:" + type(e).__name__
    ths = [threading.Thread(target=work, args=(i,)) for i in range(nthreads)]
    for t in ths:
        t.start()
    for t in ths:
        t.join(120)
    run.count("first_bcrypt_family_calls", nthreads)
    run.case(("first-bcrypt-family", name, nthreads), dict(hasher=name, threads=nthreads, results=[str(o) for o in out]))
    if any(o != (True, False) for o in out):
        run.violation(f"C19|{name}|first-use-from-threads|wrong-result", f"{nthreads} threads verifying a reference-made {name} hash as the first bcrypt-family call of the process got {out}", dict(hasher=name, results=[str(o) for o in out]))


def lazy_onload_retry(run):
    """an onload hook that fails once: the failed first use changes nothing, the next use (same or another thread) runs the hook again"""
    import threading
    import passlib.context as C
    for mode in ("sequential", "threads"):
        calls = []

        def hook(**kw):
            calls.append(threading.get_ident())
            if len(calls) == 1:
                raise RuntimeError("configuration source not ready")
            return dict(schemes=["md5_crypt", "sha256_crypt"], default="md5_crypt")
        ctx = C.LazyCryptContext(schemes=["sha256_crypt"], onload=hook)
        results = []

        def use():
            try:
                results.append(ctx.hash("pw")[:3])
            except RuntimeError:
                results.append("RuntimeError")
            except Exception as e:
                results.append("EXC:" + type(e).__name__)
        if mode == "sequential":
            use()
            use()
            use()
        else:
            ths = [threading.Thread(target=use) for _ in range(4)]
            for t in ths:
                t.start()
            for t in ths:
                t.join(60)
            use()
        run.count("lazy_onload_retry_cases")
        run.case(("lazy-onload-retry", mode), dict(mode=mode, results=results, hook_calls=len(calls)))
        ok = results.count("RuntimeError") == 1 and all(r in ("RuntimeError", "$1$") for r in results) and len(calls) == 2
        if not ok:
            run.violation(f"C19|LazyCryptContext-onload|failed-first-use|{mode}", f"onload hook failing once ({mode}): results {results}, hook ran {len(calls)} time(s); expected one RuntimeError, then the hook's policy ($1$) for everyone", dict(mode=mode, results=results))


def registry_enumeration(run, rounds):
    """one thread enumerates the registry while another makes first lookups of unloaded names"""
    import threading
    import passlib.registry as R
    import passlib.hash as PH
    sys.setswitchinterval(1e-6)
    names = ["fshp", "cisco_type7", "mssql2000", "oracle10", "lmhash", "crypt16", "sun_md5_crypt", "phpass", "mysql41", "postgres_md5"]
    errors = []
    for rnd in range(rounds):
        for n in names:
            h = R._handlers.pop(n, None)
            PH.__dict__.pop(n, None)
        stop = threading.Event()

        def enumerate_():
            try:
                while not stop.is_set():
                    lst = R.list_crypt_handlers()
                    if "md5_crypt" not in lst or list(lst) != sorted(lst):
                        errors.append("bad-list")
                    R.list_crypt_handlers(loaded_only=True)
            except Exception as e:
                errors.append(type(e).__name__)

        def load():
            try:
                for n in names:
                    if R.get_crypt_handler(n).name != n:
                        errors.append("wrong-handler")
            except Exception as e:
                errors.append("load:" + type(e).__name__)
        a, b = threading.Thread(target=enumerate_), threading.Thread(target=load)
        a.start()
        b.start()
        b.join(60)
        stop.set()
        a.join(60)
        run.count("registry_enumeration_rounds")
        if errors:
            break
    run.case(("registry-enumeration",), dict(rounds=rounds, names=names))
    if errors:
        run.violation(f"C19|registry-enumeration|first-use-race|{errors[0]}", f"enumerating the registry while another thread makes first lookups: {errors[:3]}", dict(errors=errors[:5]))


def extras(run):
    lazy_onload_retry(run)
    registry_enumeration(run, 30 if run.tier == "quick" else 300)


def body(run):
    names = list(targets())
    shards = [("explore", dict(tname=n, mode="p1")) for n in names]
    shards += [("explore", dict(tname=n, mode="p2")) for n in names if "registry" not in n]
    shards += [("explore", dict(tname=n, mode="t3")) for n in ("LazyCryptContext", "LazyBase64Engine", "md5_crypt-verify", "CryptContext-record-cache")]
    shards += [("stress", dict(tname=n, iters=25 if run.tier == "quick" else 600, nthreads=6)) for n in names if "registry" not in n]
    shards += [("independence", dict(part=i)) for i in range(2 if run.tier == "quick" else 6)]
    shards += [("first_bcrypt_family", dict(name=n, nthreads=k)) for n in ("bcrypt_sha256", "bcrypt") for k in (1, 3, 6)]
    shards += [("extras", dict())]
    by = {}
    for f, a in shards:
        by.setdefault(f, []).append(a)
    for f, al in by.items():
        run.parallel("checks.c19", f, al, timeout=1500 if run.tier == "quick" else 7000, env={"PASSLIB_BUILTIN_BCRYPT": ""})
    run.require("first_bcrypt_family_calls", 10)
    run.require("lazy_onload_retry_cases", 2)
    run.require("registry_enumeration_rounds", 10)
    run.exhaustive = True
    run.extra["exhaustive_scope"] = ("for every target: all schedules 'thread A runs k statements of the anchored files, thread B runs to completion, A finishes' (k = 1..all; every second k "
                                     "beyond the first 60 in the quick tier for targets with more than 160 yield points); two-preemption and three-thread schedules are sampled")
    for n in names:
        run.require(f"schedules:{n}", 20)
    run.require("schedules", 1500 if run.tier == "quick" else 10000)
    run.require("stress_rounds", 150)
    run.require("independence_calls", 300)
    run.assumptions += ["yield points are statement starts of the anchored python files; switches inside one C-level call are not modelled (CPython does not switch there either)",
                        "a thread released by the scheduler that does not reach its next statement within the grace period is treated as blocked on a real lock",
                        "hashers derived per thread with using() do not share the lazily initialised state and are not a target"]


if __name__ == "__main__":
    main("C19", "exploration", RULE, body)
