"""C17 - every shipped context recognises the hashes of each of its own schemes.

Exhaustive over the finite product contexts x schemes, with generated hashes (every ident / variant, optional fields on
and off, cheap costs, generated passwords): the context must attribute each hash to the scheme that made it and verify
its password; the hash text itself must not be accepted as the password; catch-all schemes (plaintext family) must not
shadow a real scheme.  Contexts: passlib.apps (exported names, the documented django / roundup variants and the internal
master_context), passlib.hosts, passlib.apache.htpasswd_context, the passlib.ext.django presets.  Registry: every listed
name loads a hasher carrying that name and passlib.hash.<name> is that same object."""
from vlib import hashers as H
from vlib.run import main

RULE = ("case = (context, scheme, generated hash) -> identify / verify through the context; distinct = distinct (context, scheme, "
        "ident/variant, optional-field class) tuples; the product contexts x schemes is enumerated completely")

# format identities documented by the formats themselves (same syntax, nothing to tell them apart): only these may be
# attributed to the earlier of the two in the undocumented master_context
INHERENT = {("hex_md5", "hex_md4"), ("dlitz_pbkdf2_sha1", "cta_pbkdf2_sha1")}
CATCHALL = ("plaintext", "ldap_plaintext", "roundup_plaintext")


def contexts():
    import passlib.apps as A
    import passlib.hosts as Hs
    import passlib.apache as Ap
    out = {}
    for n in dir(A):
        if n.endswith("_context"):
            out["apps." + n] = getattr(A, n)
    for n in dir(Hs):
        if n.endswith("_context"):
            out["hosts." + n] = getattr(Hs, n)
    out["apache.htpasswd_context"] = Ap.htpasswd_context
    try:
        from passlib.context import CryptContext
        from passlib.ext.django.utils import get_preset_config
        for preset in ("passlib-default", "django-default", "django-latest", "django-1.0", "django-1.4", "django-1.6"):
            try:
                cfg = get_preset_config(preset)
                out["ext.django." + preset] = CryptContext.from_string(cfg) if isinstance(cfg, str) else CryptContext(**cfg) if isinstance(cfg, dict) else cfg
            except Exception as e:
                out["ext.django." + preset] = e
    except Exception as e:
        out["ext.django"] = e
    return out


def hashes_for(rng, scheme, n):
    """(hash, password, ctx kwds, variant label) for the registry hasher `scheme`"""
    h = H.get(scheme)
    out = []
    slist = H.settings_list(h, rng, "quick", n_random=2)
    b = H.base_name(h)
    slist = [s for s in slist if not (s.get("rounds") and ((h.rounds_cost == "linear" and s["rounds"] > 1100) or (b == "bsdi_crypt" and s["rounds"] > 70)))]
    # one of every ident / variant first
    seen, ordered = set(), []
    for s in slist:
        key = tuple(sorted((k, str(v)) for k, v in s.items() if k not in ("salt", "rounds")))
        if key not in seen:
            seen.add(key)
            ordered.insert(0, s)
        else:
            ordered.append(s)
    for st in ordered[:n]:
        try:
            hh = H.apply(h, st)
        except Exception:
            continue
        ctx = H.ctx_for(h, rng, simple=True)
        pw = H.pw_bytes(rng, rng.choice([5, 8, 11]), "ascii").decode()
        try:
            out.append((hh.hash(pw, **ctx), pw, ctx, ",".join(f"{k}={v}" for k, v in sorted(st.items()) if k not in ("salt", "rounds")) or "default"))
        except Exception:
            continue
    if scheme in CATCHALL:
        # passwords that look a little like something else but are claimed by no real scheme
        for pw in ("{unclosed", "{}", "{x-y}z", "{ spaced }pw", "!bang", "*star", "$notahash", "x{SSHA}", "a:b", "{é-}x", "!", "*", "", "пароль", "é", "密码 with blanks", "a{plaintext}b", "ab{plaintext}", "{pass-word}123",
                   "x" + (getattr(h, "prefix", None) or "{plaintext}") + "y" + (getattr(h, "prefix", None) or "") + "z"):
            try:
                out.append((h.hash(pw), pw, {}, "hostile-first-character" if pw else "empty-password"))
            except Exception:
                continue
    return out


def short(cname):
    return cname if cname.startswith("ext.") else cname.split(".")[-1]


def categories_of(ctx):
    cats = {None, "nosuchcategory"}
    try:
        for k in ctx.to_dict():
            parts = k.split("__")
            if len(parts) == 3:
                cats.add(parts[0])
    except Exception:
        pass
    return sorted(cats, key=str)


def work(run, names):
    cs = contexts()
    for cname in names:
        ctx = cs[cname]
        rng = run.rng(cname)
        if isinstance(ctx, Exception):
            run.violation(f"C17|{cname}|cannot-load|{type(ctx).__name__}", f"shipped context {cname} cannot be built: {ctx}", dict(context=cname))
            continue
        try:
            schemes = list(ctx.schemes())
        except Exception as e:
            run.violation(f"C17|{cname}|cannot-load|{type(e).__name__}", f"shipped context {cname} cannot be loaded: {type(e).__name__}: {str(e)[:100]}", dict(context=cname))
            continue
        run.count("contexts")
        cats = categories_of(ctx)
        n = 4 if run.tier == "quick" else 160
        if cname == "apps.master_context":
            n = 3 if run.tier == "quick" else 60
        for s in schemes:
            if not H.usable(s):
                run.note(f"{cname}: scheme {s} has no backend on this host - not exercised")
                run.case((cname, s, "no-backend"), None)
                continue
            if s in H.DISABLED:
                # disabled hashers claim their markers only
                hs = H.get(s).hash("x")
                got = ctx.identify(hs)
                run.case((cname, s, "disabled"), dict(context=cname, scheme=s, hash=hs, attributed=got))
                if got != s:
                    run.violation(f"C17|{cname}|{s}|attributed-to-{got}", f"{cname}: a {s} marker is attributed to {got!r}", dict(context=cname, scheme=s, hash=hs))
                continue
            samples = hashes_for(rng, s, n)
            if not samples:
                run.violation(f"C17|{cname}|{s}|no-hash-could-be-made", f"{cname}: no hash of scheme {s} could be generated", dict(context=cname, scheme=s))
                continue
            for hs, pw, ck, variant in samples:
                w = dict(context=cname, scheme=s, variant=variant, hash=hs, password=pw)
                rp = f"import warnings; warnings.simplefilter('ignore')\nimport passlib.apps, passlib.hosts, passlib.apache\nctx = passlib.{cname if not cname.startswith('ext') else 'apps.django_context'}\nprint(ctx.identify({hs!r}), ctx.verify({pw!r}, {hs!r}))"
                if s in CATCHALL:
                    # a catch-all's requirement applies to passwords no other scheme of the context claims
                    others = [o for o in schemes if o != s and H.usable(o) and H.get(o).identify(hs)]
                    if others:
                        continue
                try:
                    got = ctx.identify(hs)
                except Exception as e:
                    run.violation(f"C17|{cname}|{s}|identify-raises|{type(e).__name__}", f"{cname}.identify raised {e}", w, rp)
                    continue
                # the same hash handed over as UTF-8 bytes
                try:
                    hb = hs.encode("utf-8")
                    gb = ctx.identify(hb)
                    vb = ctx.verify(pw, hb, **ck) if gb == s else None
                except Exception as e:
                    gb, vb = f"EXC:{type(e).__name__}", None
                run.count("bytes_attributions")
                if gb != got or (gb == s and vb is not True):
                    run.violation(f"C17|{short(cname)}|{s}|bytes-hash-changes-attribution|{'non-ascii' if not hs.isascii() else 'ascii'}",
                                  f"{cname}: a {s} hash is attributed to {got!r} as text but to {gb!r} (verify -> {vb!r}) as UTF-8 bytes", dict(w, hash_bytes=hb), rp)
                # the same through every user category the context knows (and one it does not)
                for cat in cats:
                    if cat is None:
                        continue
                    try:
                        gc = ctx.identify(hs, category=cat)
                        vc = ctx.verify(pw, hs, category=cat, **ck) if gc == s else None
                    except Exception as e:
                        gc, vc = f"EXC:{type(e).__name__}", None
                    run.count("category_attributions")
                    run.case((cname, s, "category", cat), None)
                    if gc != got or (gc == s and vc is not True):
                        run.violation(f"C17|{short(cname)}|{s}|category-changes-attribution",
                                      f"{cname}: a {s} hash is attributed to {got!r} without category but to {gc!r} (verify -> {vc!r}) with category={cat!r}", dict(w, category=cat), rp)
                        break
                run.case((cname, s, variant), w)
                run.count(f"pairs:{cname}")
                run.count("attributions")
                if got != s:
                    if cname == "apps.master_context" and (s, got) in INHERENT:
                        run.count("master_context_inherent_format_identity")
                        continue
                    kind = "shadowed-by-catch-all" if got in CATCHALL else f"attributed-to-{got}"
                    if variant == "empty-password":
                        kind = "empty-password|" + kind
                    run.violation(f"C17|{short(cname)}|{s}|{kind}", f"{cname}: a hash made by its scheme {s} ({variant}) is attributed to {got!r}", w, rp)
                    continue
                try:
                    ok = ctx.verify(pw, hs, **ck)
                    text_ok = ctx.verify(hs, hs, **ck) if s not in CATCHALL else False
                    wrong = ctx.verify(pw + "x", hs, **ck) if len(pw) < 7 or s not in ("des_crypt", "django_des_crypt", "ldap_des_crypt") else False
                except Exception as e:
                    run.violation(f"C17|{short(cname)}|{s}|verify-raises|{type(e).__name__}", f"{cname}.verify raised {type(e).__name__}: {str(e)[:100]}", w, rp)
                    continue
                if ok is not True:
                    run.violation(f"C17|{short(cname)}|{s}|password-rejected", f"{cname}: the password of a {s} hash is rejected through the context", w, rp)
                if text_ok or wrong:
                    run.violation(f"C17|{short(cname)}|{s}|{'hash-text-accepted-as-password' if text_ok else 'wrong-password-accepted'}",
                                  f"{cname}: a {s} hash verifies {'its own text' if text_ok else 'a wrong password'}", w, rp)
        # catch-alls never precede a real scheme
        for i, s in enumerate(schemes):
            # (ldap_plaintext / roundup_plaintext only claim strings without / with their own prefix: judged by attribution above)
            if s == "plaintext" and any(o not in CATCHALL and o not in H.DISABLED for o in schemes[i + 1:]):
                run.violation(f"C17|{short(cname)}|catch-all-before-real-scheme", f"{cname}: {s} precedes {schemes[i + 1:]}", dict(context=cname, schemes=schemes))


def registry(run):
    import passlib.hash as PH
    from passlib import registry as R
    names = R.list_crypt_handlers()
    if list(names) != sorted(set(names)):
        run.violation("C17|registry|list-not-sorted-unique", "list_crypt_handlers() is not a sorted list of unique names", dict(names=list(names)[:10]))
    loaded = R.list_crypt_handlers(loaded_only=True)
    if not set(loaded) <= set(names):
        run.violation("C17|registry|loaded-not-subset", "loaded_only names are not a subset of all names", {})
    for n in names:
        try:
            h = R.get_crypt_handler(n)
        except Exception as e:
            if n in H.ARGON:
                continue
            run.violation(f"C17|registry|{n}|cannot-load|{type(e).__name__}", f"registry name {n} cannot be loaded: {e}", dict(name=n))
            continue
        run.case(("registry", n), dict(name=n, handler_name=h.name))
        run.count("registry_names")
        if h.name != n:
            run.violation(f"C17|registry|{n}|wrong-name", f"registry name {n} loads a hasher named {h.name!r}", dict(name=n))
        if getattr(PH, n) is not h or R.get_crypt_handler(n) is not h:
            run.violation(f"C17|registry|{n}|not-same-object", f"passlib.hash.{n} is not the object the registry returns", dict(name=n))
        if R.get_crypt_handler(n.upper().replace("_", "-"), None) not in (h, None) and False:
            pass
    if R.get_crypt_handler("no_such_handler_xyz", None) is not None:
        run.violation("C17|registry|unknown-name", "unknown name returned a handler", {})
    try:
        R.get_crypt_handler("no_such_handler_xyz")
        run.violation("C17|registry|unknown-name-no-error", "unknown name did not raise KeyError", {})
    except KeyError:
        pass
    # the names every shipped context refers to are registry names
    for cname, ctx in contexts().items():
        if isinstance(ctx, Exception):
            continue
        for s in ctx.schemes():
            if s not in names:
                run.violation(f"C17|{cname}|{s}|not-in-registry", f"{cname} lists scheme {s} which the registry does not know", dict(context=cname))


def concurrent_first_use(run):
    """several threads make the very first identify()/verify() on a fresh copy of a shipped context at the same moment: each
    must get the attribution a single thread gets (free-running threads, short switch interval, many rounds)"""
    import sys
    import threading
    cs = contexts()
    old = sys.getswitchinterval()
    sys.setswitchinterval(1e-6)
    try:
        for cname, ctx in cs.items():
            if isinstance(ctx, Exception):
                continue
            try:
                schemes = [s_ for s_ in ctx.schemes() if H.usable(s_) and s_ not in H.DISABLED and s_ not in CATCHALL]
            except Exception:
                continue
            if len(schemes) < 2:
                continue
            rng = run.rng("conc:" + cname)
            target = schemes[-1]
            samples = hashes_for(rng, target, 1)
            if not samples:
                continue
            hs, pw, ck, _ = samples[0]
            want = ctx.identify(hs)
            rounds = 12 if run.tier == "quick" else 120
            bad = None
            for rnd in range(rounds):
                fresh = ctx.copy()
                nthreads = 4
                barrier = threading.Barrier(nthreads)
                out = [None] * nthreads

                def work(i):
                    barrier.wait()
                    try:
                        out[i] = fresh.identify(hs, category="admin" if i % 2 else None)
                    except Exception as e:
                        out[i] = "EXC:" + type(e).__name__
                ths = [threading.Thread(target=work, args=(i,)) for i in range(nthreads)]
                for t in ths:
                    t.start()
                for t in ths:
                    t.join(30)
                run.count("concurrent_first_use_rounds")
                if any(o != want for o in out):
                    bad = out
                    break
            run.case(("concurrent-first-use", cname), dict(context=cname, scheme=target, rounds=rounds, threads=4))
            if bad:
                run.violation(f"C17|{short(cname)}|{target}|concurrent-first-use", f"{cname}: four threads identifying a {target} hash on a fresh copy at once got {bad}; one thread gets {want!r}",
                              dict(context=cname, scheme=target, hash=hs, results=bad))
    finally:
        sys.setswitchinterval(old)


def catch_all_as_default(run):
    """the documented way to make a catch-all the default (ctx.copy(default=...), HtpasswdFile(default_scheme=...)) changes which
    scheme new hashes use - not which scheme an existing hash is attributed to"""
    cs = contexts()
    for cname, ctx in cs.items():
        if isinstance(ctx, Exception):
            continue
        try:
            schemes = list(ctx.schemes())
        except Exception:
            continue
        ca = [s_ for s_ in schemes if s_ in CATCHALL]
        if not ca:
            continue
        rng = run.rng("cad:" + cname)
        try:
            derived = ctx.copy(default=ca[0])
        except ValueError:
            run.count("catch_all_default_refused")       # (e.g. the catch-all is deprecated in that context: it cannot be the default)
            continue
        except Exception as e:
            run.violation(f"C17|{short(cname)}|copy-with-catch-all-default|{type(e).__name__}", f"{cname}.copy(default={ca[0]!r}) raised {e}", dict(context=cname))
            continue
        for s_ in schemes:
            if s_ in CATCHALL or s_ in H.DISABLED or not H.usable(s_):
                continue
            for hs, pw, ck, variant in hashes_for(rng, s_, 2):
                want = ctx.identify(hs)
                got = derived.identify(hs)
                run.count("catch_all_default_attributions")
                run.case((cname, "catch-all-default", s_), None)
                try:
                    v_ok = derived.verify(pw, hs, **ck) if got == s_ else True
                    v_text = derived.verify(hs, hs, **ck) if got == s_ else False
                except ValueError:
                    v_ok, v_text = (got != s_), False
                if got != want or v_ok is not True or v_text is True:
                    run.violation(f"C17|{short(cname)}|{s_}|copy-with-catch-all-default", f"{cname}.copy(default={ca[0]!r}): a {s_} hash is attributed to {got!r} (the shipped context says {want!r})",
                                  dict(context=cname, scheme=s_, hash=hs, password=pw))
                    break


ORDER_PROBE = r"""
import json, sys, warnings, importlib
warnings.simplefilter("ignore")
out = {}
for m in sys.argv[1].split(","):
    importlib.import_module(m)
import passlib.apps as A, passlib.hosts as Hs, passlib.apache as Ap
for mod, pre in ((A, "apps."), (Hs, "hosts."), (Ap, "apache.")):
    for n in dir(mod):
        if n.endswith("_context"):
            c = getattr(mod, n)
            if not hasattr(c, "schemes"):
                continue
            out[pre + n] = dict(schemes=list(c.schemes()), default=c.default_scheme(), config=sorted((k, repr(v)) for k, v in c.to_dict().items()))
print(json.dumps(out))
"""


def import_orders(run):
    """the shipped contexts are the same objects whatever was imported first (each order in a fresh interpreter)"""
    import itertools
    import json
    import subprocess
    import sys
    from vlib.run import REPO
    mods = ["passlib.apps", "passlib.hosts", "passlib.apache", "passlib.registry", "passlib.ext.django.utils"]
    orders = [list(p) for p in itertools.permutations(mods[:3])] + [[mods[3]] + mods[:3], [mods[4], mods[2], mods[1], mods[0]], [mods[1], mods[4], mods[2]]]
    seen = {}
    for order in orders:
        try:
            r = subprocess.run([sys.executable, "-c", ORDER_PROBE, ",".join(order)], capture_output=True, text=True, timeout=300, cwd=REPO)
            res = json.loads(r.stdout.strip().splitlines()[-1])
        except Exception as e:
            run.violation(f"C17|import-order|probe-fails|{type(e).__name__}", f"importing {order} in a fresh interpreter failed: {str(e)[:100]} {r.stderr[-300:] if 'r' in dir() else ''}", dict(order=order))
            continue
        run.count("import_orders")
        run.case(("import-order", tuple(order)), dict(import_order=order, contexts=len(res)))
        for cname, desc in res.items():
            if cname in seen and seen[cname][1] != desc:
                first_order, first = seen[cname]
                diff = [k for k in desc if desc[k] != first[k]]
                run.violation(f"C17|{short(cname)}|depends-on-import-order", f"{cname} differs with the import order: {diff[0]} = {str(first[diff[0]])[:150]} after importing {first_order}, but {str(desc[diff[0]])[:150]} after {order}",
                              dict(context=cname, order_a=first_order, order_b=order))
            seen.setdefault(cname, (order, desc))


def body(run):
    import_orders(run)
    concurrent_first_use(run)
    catch_all_as_default(run)
    run.require("catch_all_default_attributions", 20)
    run.require("concurrent_first_use_rounds", 100)
    run.require("import_orders", 6)
    run.require("category_attributions", 200)
    run.require("bytes_attributions", 500)
    names = list(contexts())
    run.extra["contexts"] = names
    order = sorted(names, key=lambda n: (n != "apps.master_context", n))
    run.parallel("checks.c17", "work", [dict(names=[n]) for n in order], timeout=900 if run.tier == "quick" else 3600)
    registry(run)
    run.exhaustive = True
    run.extra["exhaustive_scope"] = "every shipped context x every scheme of it (hashes per pair: generated over idents / variants / salt sizes)"
    run.require("contexts", len(names) - 1)
    run.require("attributions", 500)
    run.require("registry_names", 70)
    for n in names:
        run.require(f"pairs:{n}", 1)
    run.assumptions += ["for catch-all schemes (plaintext family) the requirement is applied to passwords no other scheme of the context claims",
                        "in the undocumented master_context two documented format identities are admitted: hex_md4/hex_md5 (32 hex digits) and cta/dlitz ($p5k2$)"]


if __name__ == "__main__":
    main("C17", "exploration", RULE, body)
