"""C04 - CryptContext identifies, verifies, flags and rehashes exactly per its policy.

Model-based monitor: generated structured configurations are rendered to CryptContext keywords (several
equivalent spellings); every decision of the real context (default scheme, attribution, cost of fresh hashes,
needs_update, verify, verify_and_update histories up to the fixed point) is compared with the executable policy
model in vlib/models/context_policy.py, which reads scheme and cost out of hashes with its own parsers."""
from vlib import hashers as H
from vlib.models import context_policy as M
from vlib.run import main

RULE = ("case = one decision of a generated context (configuration x category x hash from a configured scheme at a cost "
        "below/at/above the limits x right/wrong password); distinct = distinct (configuration shape, category kind, scheme, "
        "cost position relative to the window, decision kind) tuples")

ROUNDS = {  # cheap cost ranges used by the generator: (low, high) for configured values
    "sha256_crypt": (1000, 3000), "sha512_crypt": (1000, 3000), "pbkdf2_sha256": (1, 400), "sha1_crypt": (1, 400),
    "bcrypt": (4, 6), "phpass": (7, 9), "scram": (1, 300), "bsdi_crypt": (1, 301), "ldap_pbkdf2_sha256": (1, 300),
    "django_pbkdf2_sha256": (1, 300), "bcrypt_sha256": (4, 5),
}
PLAIN = ["md5_crypt", "des_crypt", "ldap_salted_sha1", "apr_md5_crypt", "mysql41", "bigcrypt", "hex_md5", "nthash"]
OVERLAP = {"bigcrypt", "hex_md5", "nthash"}   # formats whose strings are also claimed by other pool members (ordering matters)
POOL = list(ROUNDS) + PLAIN
PW = "correct horse"


def limits(scheme):
    h = H.get(scheme)
    return dict(min=h.min_rounds, max=h.max_rounds, default=h.default_rounds, cost=h.rounds_cost)


def gen_opts(rng, scheme, must_bound=True, base=None):
    lo, hi = ROUNDS[scheme]
    hmin = H.get(scheme).min_rounds
    o = {}
    kind = rng.randrange(8)
    a, b = sorted([rng.randint(lo, hi), rng.randint(lo, hi)])
    if scheme == "bsdi_crypt":
        a, b = a | 1, b | 1
    if scheme == "bsdi_crypt" and rng.random() < 0.25:
        return dict(min_rounds=a, max_rounds=a + 1)          # a two-value window whose upper bound is even
    if kind == 0:
        o = dict(default_rounds=a)
    elif kind == 1:
        o = dict(max_rounds=b)
    elif kind == 2:
        o = dict(min_rounds=a, max_rounds=b)
    elif kind == 3:
        o = dict(min_rounds=a, max_rounds=b, default_rounds=rng.randint(a, b) | (1 if scheme == "bsdi_crypt" else 0))
        if o["default_rounds"] > b:
            o["default_rounds"] = b
    elif kind == 4:
        # below the hard minimum: clipped
        o = dict(min_rounds=max(0, hmin - rng.choice([1, 3, 500])), max_rounds=b)
    elif kind == 5:
        o = dict(min_rounds=a, default_rounds=b)
    elif kind == 6:
        o = dict(rounds=a)
    else:
        o = dict(max_rounds=a, min_rounds=a)
        if scheme == "bsdi_crypt" and rng.random() < 0.3:
            o = dict(max_rounds=a + 1, min_rounds=a + 1)   # a window holding a single even value
    if scheme == "bcrypt_sha256" and rng.random() < 0.5:
        o["version"] = rng.choice([1, 1, 2])           # the older layout stays a valid policy: its own fresh hashes are final
    if rng.random() < 0.35 and "rounds" not in o:
        if H.get(scheme).rounds_cost == "linear":
            o["vary_rounds"] = rng.choice([1, 7, 50, 0.1, 0.25, "10%", "5"])
        else:
            o["vary_rounds"] = rng.choice([1, 2])
    return o


def gen_cfg(rng):
    n = rng.choice([1, 2, 2, 3, 3, 4, 5])
    schemes = rng.sample(POOL, n)
    if rng.random() < 0.25:
        schemes.append("plaintext")
    if rng.random() < 0.2:
        schemes.insert(rng.randrange(1, len(schemes) + 1), "unix_disabled")
    real = [s for s in schemes if s != "unix_disabled"]
    cfg = dict(schemes=schemes, default=None, deprecated=None, opts={}, cats={})
    mode = rng.randrange(5)
    if mode in (1, 3):
        cfg["default"] = rng.choice(real)
    if mode in (2, 3):
        cfg["deprecated"] = "auto"
    elif mode == 4 or (mode == 1 and rng.random() < 0.5):
        cand = [s for s in schemes if s != cfg["default"]]
        k = rng.randint(0, max(0, len(cand) - (0 if cfg["default"] else 1)))
        dep = rng.sample(cand, k) if cand else []
        # keep a non-disabled scheme available as default
        if not cfg["default"] and all(s in dep or s == "unix_disabled" for s in schemes):
            dep = dep[:-1]
        if not cfg["default"]:
            first = next((s for s in schemes if s not in dep), None)
            if first in (None, "unix_disabled"):
                dep = [d for d in dep if d != real[0]]
                if schemes[0] == "unix_disabled":
                    schemes.remove("unix_disabled")
                    schemes.append("unix_disabled")
        cfg["deprecated"] = dep
    if schemes[0] == "unix_disabled" and not cfg["default"]:
        schemes.remove("unix_disabled")
        schemes.append("unix_disabled")
    for s in schemes:
        if s in ROUNDS:
            cfg["opts"][s] = gen_opts(rng, s)
    # the wildcard scheme 'all': a value for every scheme that has the option (values kept cheap for log-cost schemes)
    def all_opts():
        vals = [4, 5, 6, 7, 8] if any(s in ROUNDS and H.get(s).rounds_cost == "log2" for s in schemes) else [5, 50, 150, 300, 1200, 2000]
        k = rng.choice(["min_rounds", "max_rounds", "max_rounds", "vary_rounds"])
        return {k: rng.choice(vals) if k != "vary_rounds" else rng.choice([1, 2])}
    if rng.random() < 0.25:
        cfg["all"] = all_opts()
    for cat in rng.choice([[], [], ["admin"], ["admin", "staff"]]):
        c = {}
        if rng.random() < 0.3:
            c["all"] = all_opts()
        r = rng.randrange(6)
        if r in (0, 1):
            c["default"] = rng.choice(real)
        if r in (1, 2):
            c["deprecated"] = rng.choice(["auto", [s for s in schemes if s != c.get("default", cfg["default"]) and rng.random() < 0.5]])
            if isinstance(c["deprecated"], list) and not c.get("default", cfg["default"]):
                # without an explicit default the first non-deprecated scheme becomes the category's default:
                # keep a real scheme there (a disabled-account hasher as default makes every new hash a locked marker - a misconfiguration, not a case)
                first = next((s for s in schemes if s not in c["deprecated"]), None)
                if first in (None, "unix_disabled"):
                    c["deprecated"] = [s for s in c["deprecated"] if s != real[0]]
                    if schemes.index(real[0]) > (schemes.index("unix_disabled") if "unix_disabled" in schemes else len(schemes)):
                        del c["deprecated"]
        o = {}
        for s in schemes:
            if s in ROUNDS and rng.random() < 0.5:
                base = cfg["opts"].get(s, {})
                # partial override, keep it consistent with the inherited keys
                mn, mx = base.get("min_rounds"), base.get("max_rounds")
                lo, hi = ROUNDS[s]
                if "rounds" in base:
                    continue
                k = rng.choice(["default_rounds", "max_rounds", "min_rounds"])
                lo2 = max(lo, mn or lo)
                hi2 = min(hi, mx or hi)
                if lo2 > hi2:
                    continue
                v = rng.randint(lo2, hi2)
                if s == "bsdi_crypt":
                    v |= 1
                    if v > hi2:
                        continue
                d = base.get("default_rounds")
                if k == "max_rounds" and d is not None and v < d:
                    v = d
                if k == "min_rounds" and d is not None and v > d:
                    v = d
                o[s] = {k: v}
        if o:
            c["opts"] = o
        cfg["cats"][cat] = c
    return cfg


def shape(cfg):
    return (len(cfg["schemes"]), bool(cfg["default"]), "auto" if cfg["deprecated"] == "auto" else "list" if cfg["deprecated"] else "none",
            len(cfg["cats"]), "plaintext" in cfg["schemes"])


_corpus = {}


def corpus_hash(scheme, rounds, variant=0):
    key = (scheme, rounds, variant)
    if key not in _corpus:
        h = H.get(scheme)
        kw = {}
        if rounds is not None:
            kw["rounds"] = rounds
        if scheme == "scram" and variant:
            kw["algs"] = "sha-1,md5"
        if scheme == "bcrypt" and variant:
            kw["ident"] = {1: "2a", 2: "2y", 3: "2a"}[variant]
        if scheme == "phpass" and variant:
            kw["ident"] = "H"
        if scheme == "bcrypt_sha256" and variant:
            kw["version"] = 1
        hs = h.using(**kw).hash(PW) if kw else h.hash(PW)
        if scheme == "bcrypt" and variant == 3:
            # a legacy $2a$ hash whose 22nd salt character carries stray padding bits (documented: such hashes are flagged for update)
            b64 = "./ABCDEFGHIJKLMNOPQRSTUVWXYZabcdefghijklmnopqrstuvwxyz0123456789"
            hs = hs[:28] + b64[b64.index(hs[28]) | 5] + hs[29:]
        _corpus[key] = hs
    return _corpus[key]


def positions(scheme, mn, mx, d):
    """cost values below / at / above the configured limits (valid for the scheme's hard limits)"""
    h = H.get(scheme)
    vals = set()
    for v in (mn, mx, d):
        if v:
            vals.update([v - 1, v, v + 1])
            if scheme == "bsdi_crypt":
                vals.update([v - 2, v + 2])
    vals.add(h.min_rounds)
    lo, hi = ROUNDS[scheme]
    out = sorted(v for v in vals if v >= h.min_rounds and v <= min(h.max_rounds or 10 ** 9, hi * 2 + 2))
    return out


def pos_label(c, mn, mx):
    if mn and c < mn:
        return "below"
    if mx and c > mx:
        return "above"
    if c in (mn, mx):
        return "at"
    return "inside"


def check_cfg(run, rng, cfg, idx):
    from passlib.context import CryptContext
    style = idx % 30
    kw = M.render(cfg, style)
    w0 = dict(config=kw)
    rp0 = f"import warnings; warnings.simplefilter('ignore')\nfrom passlib.context import CryptContext\nctx = CryptContext(**{kw!r})\n"
    try:
        for cat in [None] + list(cfg["cats"]):
            M.default_scheme(cfg, cat)
            for s in cfg["schemes"]:
                if s in ROUNDS:
                    M.window(cfg, s, cat, limits(s))
    except M.Invalid:
        run.count("generated_invalid_config")
        return
    try:
        ctx = CryptContext(**kw)
    except Exception as e:
        run.violation(f"C04|construct|{type(e).__name__}", f"valid configuration refused: {type(e).__name__}: {str(e)[:120]}", w0, rp0)
        return
    run.count("configs")
    if cfg.get("all") or any(c.get("all") for c in cfg["cats"].values()):
        run.count("configs_with_wildcard_scheme_options")
    if any(c.get("all") and not c.get("opts") and not c.get("default") and c.get("deprecated") is None for c in cfg["cats"].values()):
        run.count("configs_with_category_differing_only_by_wildcard")
    sh = shape(cfg)
    cats = [None] + list(cfg["cats"]) + ["nosuchcat"]
    # a history: categories are visited in a generated order and the first one is visited again at the end, so that
    # every lazily filled cache of the context is exercised in more than one order
    rng.shuffle(cats)
    cats = cats + [cats[0], None]
    for visit, cat in enumerate(cats):
        mcat = cat if cat in cfg["cats"] else None
        ck = "none" if cat is None else "unknown" if mcat is None else "cat"
        exp_default = M.default_scheme(cfg, mcat)
        got_default = ctx.default_scheme(category=cat)
        run.case((sh, ck, "default-scheme"), None)
        if got_default != exp_default:
            run.violation("C04|default-scheme", f"default scheme is {got_default!r}, policy says {exp_default!r}", dict(w0, category=cat),
                          rp0 + f"print(ctx.default_scheme(category={cat!r}), 'expected', {exp_default!r})")
            continue
        # fresh hash
        try:
            fresh = ctx.hash(PW, category=cat)
        except Exception as e:
            mech = f"C04|fresh-hash-raises|{exp_default}|{type(e).__name__}"
            run.violation(mech, f"hash() raised {type(e).__name__}: {str(e)[:100]} under a valid configuration", dict(w0, category=cat),
                          rp0 + f"print(ctx.hash('pw', category={cat!r}))")
            fresh = None
        if fresh is not None:
            shadowed = first_claim(cfg, fresh) != exp_default   # an earlier overlapping format claims it
            if shadowed:
                run.count("fresh_hash_shadowed_by_overlapping_format")
                continue
            if not H.get(exp_default).identify(fresh) or ctx.identify(fresh, category=cat) != exp_default:
                run.violation("C04|fresh-hash-wrong-scheme", f"new hash is not from the default scheme {exp_default!r}", dict(w0, category=cat, hash=fresh))
            if exp_default in ROUNDS:
                mn, mx, d, lo, hi = M.window(cfg, exp_default, mcat, limits(exp_default))
                c = M.cost_of(exp_default, fresh)
                run.case((sh, ck, exp_default, "fresh-cost"), dict(config=kw, category=cat, fresh_hash=fresh, model_window=[mn, mx, d, lo, hi]))
                okc = lo is None or lo <= c <= hi
                if exp_default == "bsdi_crypt" and lo is not None and not okc:
                    # bsdi_crypt documents that it only generates odd costs: the odd neighbour of the variation range is
                    # fine as long as it stays inside the configured window
                    okc = (c % 2 == 1 and lo - 1 <= c <= hi + 1 and (not mn or c >= mn) and (not mx or c <= mx))
                if not okc:
                    mech = f"C04|fresh-cost-outside-window|{exp_default}"
                    if exp_default == "bsdi_crypt" and not any(v % 2 for v in range(max(mn or 1, lo), (mx or hi) + 1)):
                        mech = "C04|bsdi_crypt|even-only-window-overshoot"
                    run.violation(mech, f"{exp_default}: new hash has cost {c}, policy window for new hashes is [{lo},{hi}] (min={mn} max={mx} default={d})",
                                  dict(w0, category=cat, hash=fresh), rp0 + f"print(ctx.hash('pw', category={cat!r}))")
            nu = ctx.needs_update(fresh, category=cat)
            if nu:
                mech = "C04|fresh-hash-needs-update"
                if exp_default == "bsdi_crypt" and even_only(cfg, mcat):
                    mech = "C04|bsdi_crypt|even-only-window-overshoot"
                run.violation(mech, f"a hash the context just produced ({exp_default}) needs updating under the same context and category",
                              dict(w0, category=cat, hash=fresh), rp0 + f"h=ctx.hash('pw', category={cat!r}); print(h, ctx.needs_update(h, category={cat!r}))")
            if not ctx.verify(PW, fresh, category=cat) or ctx.verify("x" + PW, fresh, category=cat):
                run.violation("C04|fresh-hash-verify", "fresh hash does not verify exactly its password", dict(w0, category=cat, hash=fresh))
        # corpus decisions
        for s in cfg["schemes"]:
            if s == "unix_disabled":
                continue
            if s in ROUNDS:
                mn, mx, d, lo, hi = M.window(cfg, s, mcat, limits(s))
                costs = positions(s, mn, mx, d)
                if len(costs) > 5:
                    costs = rng.sample(costs, 5)
            else:
                mn = mx = None
                costs = [None]
            variants = [(c, 0) for c in costs]
            if s == "scram":
                variants.append((costs[0], 1))
            if s == "bcrypt":
                variants += [(c, 1) for c in costs] + [(costs[-1], 2), (costs[0], 2), (costs[len(costs) // 2], 3)]
            if s == "phpass":
                variants += [(costs[0], 1), (costs[-1], 1)]
            if s == "bcrypt_sha256":
                variants += [(c, 1) for c in costs]        # version-1 layout
            if s in ("sha256_crypt", "sha512_crypt"):
                variants.append((5000, 0))   # rendered with the implicit (elided) rounds field
            for c, var in variants:
                try:
                    hs = corpus_hash(s, c, var)
                except ValueError:
                    continue
                attr = first_claim(cfg, hs)
                hs_arg = hs.encode("ascii") if (visit + len(hs)) % 2 and hs.isascii() else hs
                got_attr = ctx.identify(hs_arg, category=cat)
                lab = pos_label(c, mn, mx) if c is not None else "n/a"
                run.case((sh, ck, s, lab, "identify"), None)
                if got_attr != attr:
                    run.violation("C04|attribution", f"hash of {s} attributed to {got_attr!r}, first claiming scheme is {attr!r}", dict(w0, category=cat, hash=hs),
                                  rp0 + f"print(ctx.identify({hs!r}, category={cat!r}), 'expected', {attr!r})")
                    continue
                if attr != s:
                    run.count("shadowed_by_earlier_scheme")
                    continue
                exp_nu = M.needs_update(cfg, s, mcat, hs, limits(s)) if s in ROUNDS else (M.deprecated(cfg, s, mcat) or M.own_flag(s, hs))
                got_nu = ctx.needs_update(hs_arg, category=cat)
                run.case((sh, ck, s, lab, "needs_update", exp_nu), dict(config=kw, category=cat, hash=hs, model_needs_update=exp_nu))
                run.count(f"needs_update:{lab}:{exp_nu}")
                if got_nu is not exp_nu:
                    run.violation(f"C04|needs_update|{s}|{lab}|expected-{exp_nu}",
                                  f"needs_update is {got_nu!r} for a {s} hash with cost {c} ({lab} the window min={mn} max={mx}), deprecated={M.deprecated(cfg, s, mcat)}; policy says {exp_nu!r}",
                                  dict(w0, category=cat, hash=hs), rp0 + f"print(ctx.needs_update({hs!r}, category={cat!r}), 'expected', {exp_nu!r})")
                # verify / verify_and_update history
                if not ctx.verify(PW, hs, category=cat) or ctx.verify("wrong", hs, category=cat):
                    run.violation("C04|verify", f"verify through the context wrong for a {s} hash", dict(w0, category=cat, hash=hs))
                r = ctx.verify_and_update("wrong", hs, category=cat)
                if r != (False, None):
                    run.violation("C04|verify_and_update|wrong-password", f"verify_and_update(wrong) returned {r!r}", dict(w0, hash=hs))
                try:
                    ok, new = ctx.verify_and_update(PW, hs_arg, category=cat)
                except Exception as e:
                    run.violation(f"C04|verify_and_update|raises|{type(e).__name__}", f"verify_and_update raised {e}", dict(w0, hash=hs, category=cat))
                    continue
                run.case((sh, ck, s, lab, "verify_and_update", exp_nu), None)
                if ok is not True or (new is None) is exp_nu:
                    run.violation(f"C04|verify_and_update|shape|expected-new-{exp_nu}", f"verify_and_update returned ({ok!r}, {'hash' if new else None}); needs_update per policy is {exp_nu}",
                                  dict(w0, category=cat, hash=hs, result=[ok, new]), rp0 + f"print(ctx.verify_and_update({PW!r}, {hs!r}, category={cat!r}))")
                    continue
                if new is not None:
                    steps = 0
                    cur = new
                    while cur is not None and steps < 4:
                        if first_claim(cfg, cur) != exp_default:
                            run.violation("C04|verify_and_update|new-not-default-scheme", f"replacement hash is not from the default scheme {exp_default!r}", dict(w0, category=cat, new=cur))
                            break
                        ok2, nxt = ctx.verify_and_update(PW, cur, category=cat)
                        if not ok2:
                            run.violation("C04|verify_and_update|new-does-not-verify", "replacement hash does not verify the password", dict(w0, category=cat, new=cur))
                            break
                        steps += 1
                        cur = nxt
                    run.count(f"fixed_point_steps:{steps}")
                    if steps > 1:
                        mech = "C04|verify_and_update|no-fixed-point"
                        if exp_default == "bsdi_crypt" and even_only(cfg, mcat):
                            mech = "C04|bsdi_crypt|even-only-window-overshoot"
                        run.violation(mech, f"replacement hash ({exp_default}) itself needs updating again ({steps} steps)", dict(w0, category=cat, hash=hs, new=new),
                                      rp0 + f"ok,new=ctx.verify_and_update({PW!r}, {hs!r}, category={cat!r}); print(new, ctx.needs_update(new, category={cat!r}))")


def even_only(cfg, cat):
    mn, mx, d, lo, hi = M.window(cfg, "bsdi_crypt", cat, limits("bsdi_crypt"))
    return bool(mx) and not any(v % 2 for v in range(max(mn or 1, 1), mx + 1))


def first_claim(cfg, hs):
    for s in cfg["schemes"]:
        if H.get(s).identify(hs):
            return s
    return None


def work(run, start, count):
    for idx in range(start, start + count):
        rng = run.rng(f"cfg{idx}")
        cfg = gen_cfg(rng)
        try:
            check_cfg(run, rng, cfg, idx)
        except Exception as e:
            import traceback
            run.violation(f"C04|harness-or-context-error|{type(e).__name__}", f"unexpected {type(e).__name__}: {str(e)[:150]}",
                          dict(config=M.render(cfg, idx % 30), tb=traceback.format_exc()[-800:]))


def isolation(run, start, count):
    """contexts do not influence each other: context A is used, then other contexts over the same schemes with other
    options are built and used, then A must still give the answers it gave before - in particular the hashes A made
    earlier still need no update, and new ones carry A's parameters"""
    import re
    from passlib.context import CryptContext
    from checks import c10
    P = "iso pw"          # (short enough for every truncation policy the generator may switch on)
    for idx in range(start, start + count):
        rng = run.rng(f"iso{idx}")
        cfg = c10.gen_cfg(rng)
        for s_ in ("scrypt", "bcrypt_sha256"):
            if s_ not in cfg["schemes"] and "plaintext" not in cfg["schemes"] and rng.random() < 0.5 and not cfg.get("all") and not any(c.get("all") for c in cfg["cats"].values()):
                cfg["schemes"].append(s_)
                cfg["opts"][s_] = {"rounds": 2} if s_ == "scrypt" else {"default_rounds": 4, "max_rounds": 5}
        try:
            for cat in [None] + list(cfg["cats"]):
                M.default_scheme(cfg, cat)
                for s_ in cfg["schemes"]:
                    if s_ in ROUNDS:
                        M.window(cfg, s_, cat, limits(s_))
            ctx = CryptContext(**M.render(cfg, idx % 30))
        except (M.Invalid, ValueError, KeyError):
            continue
        cats = [None] + list(cfg["cats"])
        corpus = c10.corpus_for(cfg)
        mine = [(c, ctx.hash(P, category=c, scheme=s_)) for c in cats for s_ in cfg["schemes"] if s_ not in ("unix_disabled", "plaintext")]

        def params(hs):
            m = re.match(r"^\$scrypt\$ln=(\d+),r=(\d+),p=(\d+)\$", hs)
            return m.groups() if m else None

        def snapshot():
            snap = dict(to_dict=sorted((k, repr(v)) for k, v in ctx.to_dict().items()))
            snap["own"] = [(c, hs[:24], ctx.identify(hs, category=c), ctx.needs_update(hs, category=c), ctx.verify(P, hs, category=c)) for c, hs in mine]
            snap["corpus"] = [(hs[:24], c10.fp_item(lambda: ctx.identify(hs)), c10.fp_item(lambda: ctx.needs_update(hs))) for hs in corpus]
            snap["new_params"] = [params(ctx.hash(P, scheme="scrypt")) if "scrypt" in cfg["schemes"] else None]
            return snap
        before = snapshot()
        others = []
        for j in range(3):
            okw = {"schemes": [s_ for s_ in cfg["schemes"] if s_ != "unix_disabled"]}
            for s_ in okw["schemes"]:
                if s_ in ROUNDS:
                    for k, v in gen_opts(rng, s_).items():
                        okw[f"{s_}__{k}"] = v
                if s_ == "scrypt":
                    okw.update({"scrypt__rounds": 1, "scrypt__parallelism": rng.choice([2, 3]), "scrypt__block_size": rng.choice([1, 2, 4])})
                if s_ == "bcrypt":
                    okw["bcrypt__ident"] = rng.choice(["2a", "2y", "2b"])
                if "salt_size" in getattr(H.get(s_), "setting_kwds", ()) and H.get(s_).min_salt_size != H.get(s_).max_salt_size:
                    okw[f"{s_}__salt_size"] = max(H.get(s_).min_salt_size, 1) + (j % 2)
            try:
                other = CryptContext(**okw)
                for s_ in okw["schemes"]:
                    if s_ != "plaintext":
                        other.verify(P, other.hash(P, scheme=s_))
                for c, hs in mine[:4]:
                    other.verify_and_update(P, hs)
                others.append(okw)
            except ValueError:
                continue
        after = snapshot()
        run.case(("isolation", len(cfg["schemes"]), len(others), "scrypt" in cfg["schemes"]), dict(config=M.render(cfg, 0), other_contexts=others[:2]))
        run.count("isolation_cases")
        run.count("isolation_other_contexts", len(others))
        diff = [k for k in before if before[k] != after[k]]
        if diff:
            k = diff[0]
            pair = next(((a, b) for a, b in zip(before[k], after[k]) if a != b), (before[k], after[k]))
            run.violation(f"C04|isolation|{'+'.join(diff)}", f"after other contexts over the same schemes were built and used, this context answers differently: {k}: {str(pair[0])[:150]} -> {str(pair[1])[:150]}",
                          dict(config=M.render(cfg, 0), other_contexts=others, differs=diff))


def reconfigured(run):
    """a context that gains (or loses) a scheme taking a context keyword through update()/load(): calls that carry the keyword
    behave as on a context built in one go with the same final configuration"""
    from passlib.context import CryptContext
    import passlib.hash as PH
    md5 = PH.md5_crypt.hash(PW)
    for kwscheme in ("postgres_md5", "oracle10", "msdcc2", "cisco_pix"):
        target = dict(schemes=["md5_crypt", kwscheme], deprecated=["md5_crypt"] if kwscheme != "cisco_pix" else [])
        for how in ("update", "load", "copy", "update-then-back"):
            ctx = CryptContext(schemes=["md5_crypt"])
            ctx.verify(PW, md5)                       # used before the change
            try:
                if how == "update":
                    ctx.update(**target)
                elif how == "load":
                    ctx.load(target)
                elif how == "copy":
                    ctx = ctx.copy(**target)
                else:
                    ctx.update(**target)
                    ctx.update(schemes=["md5_crypt"], deprecated=[])
                    ctx.update(**target)
                fresh = CryptContext(**ctx.to_dict())
                res = []
                for c in (ctx, fresh):
                    out = []
                    for label, fn in (("verify-with-user", lambda: c.verify(PW, md5, user="bob")), ("verify_and_update-with-user", lambda: c.verify_and_update(PW, md5, user="bob")[0]),
                                      ("needs_update", lambda: c.needs_update(md5)), ("hash-with-user", lambda: c.identify(c.hash(PW, user="bob"))),
                                      ("verify-own", lambda: c.verify(PW, c.hash(PW, user="bob"), user="bob"))):
                        try:
                            out.append((label, fn()))
                        except Exception as e:
                            out.append((label, "EXC:" + type(e).__name__))
                    res.append(out)
            except Exception as e:
                run.violation(f"C04|reconfigured|{how}|raises|{type(e).__name__}", f"{how} to {target} raised {type(e).__name__}: {str(e)[:80]}", dict(target=target, how=how))
                continue
            run.count("reconfigured_cases")
            run.case(("reconfigured", kwscheme, how), dict(target=target, how=how, answers=[list(map(str, x)) for x in res[0]]))
            if res[0] != res[1] or res[0][0][1] is not True:
                diff = [(a, b) for a, b in zip(res[0], res[1]) if a != b] or res[0][:1]
                run.violation(f"C04|reconfigured|{how}|differs-from-fresh-context", f"a context brought to {target} by {how} answers {diff[0][0]} where a context built afresh from its export answers {diff[0][1] if len(diff[0]) > 1 else ''}",
                              dict(target=target, how=how, reconfigured=[list(map(str, x)) for x in res[0]], fresh=[list(map(str, x)) for x in res[1]]))


def handoff(run):
    """a configured hasher object taken out of one context (`ctx.handler(name)`) and given to another as a scheme: the receiving
    context's own policy decides (deprecation flags and cost windows of the donor must not travel with the object)"""
    from passlib.context import CryptContext
    for s, opts in (("md5_crypt", {}), ("des_crypt", {}), ("ldap_md5", {}), ("phpass", {"phpass__default_rounds": 7}), ("pbkdf2_sha256", {"pbkdf2_sha256__default_rounds": 12}),
                    ("sha256_crypt", {"sha256_crypt__default_rounds": 1000}), ("ldap_salted_sha1", {})):
        for dep in ([s], "auto"):
            donor = CryptContext(schemes=["sha1_crypt", s], deprecated=dep, sha1_crypt__default_rounds=5, **opts)
            donor.hash(PW)
            obj = donor.handler(s)
            for layout in ("alone", "first", "second-deprecated"):
                w = dict(scheme=s, donor_deprecated=dep, layout=layout)
                try:
                    if layout == "alone":
                        recv = CryptContext(schemes=[obj])
                    elif layout == "first":
                        recv = CryptContext(schemes=[obj, "sha1_crypt"], sha1_crypt__default_rounds=5)
                    else:
                        recv = CryptContext(schemes=["sha1_crypt", obj], deprecated=[s], sha1_crypt__default_rounds=5)
                    hs = recv.hash(PW, scheme=s) if layout == "second-deprecated" else recv.hash(PW)
                    want_update = layout == "second-deprecated"
                    got = (recv.identify(hs), recv.verify(PW, hs), recv.needs_update(hs))
                    ok, new = recv.verify_and_update(PW, hs)
                    new2 = recv.verify_and_update(PW, new)[1] if new is not None else None
                except Exception as e:
                    run.violation(f"C04|handoff|{layout}|raises|{type(e).__name__}", f"context over a hasher object taken from another context raised {type(e).__name__}: {str(e)[:80]}", w)
                    continue
                run.count("handoff_cases")
                run.case(("handoff", s, str(dep), layout), dict(w, answers=list(map(str, got))))
                if got != (s, True, want_update) or ok is not True or (new is not None) != want_update or new2 is not None:
                    run.violation(f"C04|handoff|{layout}|donor-policy-travels", f"{s} object from a context where it is deprecated ({dep}), used as {layout}: identify/verify/needs_update = {got}, "
                                  f"verify_and_update -> ({ok}, {'new' if new else None}), second pass -> {'new again' if new2 else None}; expected needs_update={want_update}", dict(w, got=list(map(str, got))))


def body(run):
    total = 320 if run.tier == "quick" else 6400
    per = total // 16
    run.parallel("checks.c04", "work", [dict(start=i * per, count=per) for i in range(16)], timeout=900 if run.tier == "quick" else 5400)
    reconfigured(run)
    run.require("reconfigured_cases", 12)
    handoff(run)
    run.require("handoff_cases", 30)
    niso = 48 if run.tier == "quick" else 960
    run.parallel("checks.c04", "isolation", [dict(start=90000 + i * (niso // 16), count=niso // 16) for i in range(16)], timeout=900 if run.tier == "quick" else 3600)
    run.require("isolation_cases", niso // 3)
    run.require("isolation_other_contexts", niso // 2)
    run.require("configs", total // 3)
    run.require("configs_with_wildcard_scheme_options", 20)
    run.require("configs_with_category_differing_only_by_wildcard", 5)
    for lab in ("below", "above", "at", "inside"):
        run.require(f"needs_update:{lab}:" + ("True" if lab in ("below", "above") else "False"), 20)
    if run.tier == "thorough":
        # the repository's own test-suite as one more workload, monitors on (vlib/ambient_plugin.py)
        from vlib.ambient import suite_under_monitor
        suite_under_monitor(run, min_events={"C04-fresh-hash": 20})
    run.assumptions += ["'claims' in 'first configured scheme that claims it' is the unconfigured hasher's own identify(); identify correctness itself is C07/C08/C17",
                        "log2-cost schemes with float vary_rounds: the variation range is not modelled (window and needs_update still are)"]


if __name__ == "__main__":
    main("C04", "exploration", RULE, body)
