"""C08 - malformed or altered hash strings are rejected cleanly and never verify.

For seed hashes of every hasher (several settings each) the COMPLETE single-edit neighbourhood is generated
(every substitution from a hostile alphabet, deletion, insertion, truncation at every position) plus structural
mutations and random strings, as str and bytes, through the hasher and through a CryptContext.
Oracles: identify() answers a bool and never raises; verify()/needs_update() answer or raise ValueError/TypeError
(and subclasses), never an internal error; a string different from the valid hash that still verifies the original
password must be one of the documented re-encodings of the very same digest bits (hex case, unused padding bits,
'+' for '.', the 2a/2b/2y names of one algorithm, mssql2000's unused first digest) - anything else is a violation
whose mechanism names the field and the class of edit."""
import re
import signal

from vlib import hashers as H
from vlib.refimpl import formats as F
from vlib.run import main

RULE = ("case = one mutant of a valid hash (single-character substitution / deletion / insertion / truncation at one position, or "
        "a structural mutation, or a random string) x str|bytes x {identify, verify, needs_update} x {hasher, context}; distinct = "
        "distinct (hasher, seed hash, edit kind, position) tuples; the one-edit neighbourhood of every seed hash is complete")

SUBST = ["0", "9", "a", "Z", ".", "/", "$", "=", ",", "!", " ", "\x00", "\xe9", "+", "_", "-", "\n", "{"]
INSERT = ["0", "a", "$", " ", "=", "\n", "\x00", "_", "+", "A"]
HEXNORM = ("hex_md4", "hex_md5", "hex_sha1", "hex_sha256", "hex_sha512", "lmhash", "nthash", "msdcc", "msdcc2", "mysql323", "mysql41",
           "oracle10", "oracle11", "mssql2000", "mssql2005", "grub_pbkdf2_sha512", "cisco_type7", "ldap_hex_md5", "ldap_hex_sha1", "htdigest",
           "bsd_nthash", "postgres_md5")
B64_UNPADDED = ("pbkdf2_sha1", "pbkdf2_sha256", "pbkdf2_sha512", "ldap_pbkdf2_sha1", "ldap_pbkdf2_sha256", "ldap_pbkdf2_sha512", "scram", "scrypt",
                "dlitz_pbkdf2_sha1")
OK_EXC = (ValueError, TypeError)


class Timeout(Exception):
    pass


def _alarm(signum, frame):
    raise Timeout()


def seeds_for(h, rng, tier):
    name = h.name
    slist = H.settings_list(h, rng, "quick", n_random=2)
    rng.shuffle(slist)
    out = []
    want = 3 if tier == "quick" else 6
    guard = 0
    for st in slist:
        guard += 1
        if len(out) >= want or guard > 40:
            break
        b = H.base_name(h)
        # keep costs small: mutants are verified thousands of times
        if st.get("rounds") and ((h.rounds_cost == "linear" and st["rounds"] > 1100) or (b == "bsdi_crypt" and st["rounds"] > 70)):
            continue
        if isinstance(st.get("salt"), (str, bytes)) and len(st["salt"]) > 24:
            continue
        if b == "sun_md5_crypt" and not st.get("salt"):
            continue   # "$md5$$chk" is ambiguous between the bare and the terminated spelling of an empty salt
        try:
            hh = H.apply(h, st)
        except Exception:
            continue
        ctx = H.ctx_for(h, rng, simple=True)
        pw = "pass" + "".join(rng.choice("wordXYZ123") for _ in range(4))
        if bname_nosettings(h):
            slist.append({})   # setting-less hashers: further seeds come from further passwords
        try:
            hs = hh.hash(pw, **ctx)
        except Exception:
            continue
        if any(hs == o[0] for o in out):
            continue
        out.append((hs, pw, ctx, st))
    return out


def bname_nosettings(h):
    return not getattr(h, "setting_kwds", ()) or H.base_name(h) in ("lmhash", "cisco_pix", "cisco_asa")


def cost_spans(name, hs):
    """[(start, end)] spans of the string whose alteration can change the work factor (found syntactically)"""
    spans = []
    for m in re.finditer(r"rounds=\d+|ln=\d+,r=\d+,p=\d+|r=\d+|\|\d+\|\d+\}", hs):
        spans.append(m.span())
    b = name
    if "bcrypt" in b:
        for m in re.finditer(r"\$\d\d\$|,\d+\$", hs):
            spans.append(m.span())
    if b in ("pbkdf2_sha1", "pbkdf2_sha256", "pbkdf2_sha512", "scram", "sha1_crypt", "ldap_sha1_crypt", "django_pbkdf2_sha1", "django_pbkdf2_sha256",
             "cta_pbkdf2_sha1", "dlitz_pbkdf2_sha1", "ldap_pbkdf2_sha1", "ldap_pbkdf2_sha256", "ldap_pbkdf2_sha512"):
        m = re.match(r"^(\$pbkdf2(?:-sha\d+)?\$|\$scram\$|(?:\{CRYPT\})?\$sha1\$|pbkdf2_sha\d+\$|\$p5k2\$|\{PBKDF2(?:-SHA\d+)?\})([0-9a-f]*)\$", hs)
        if m:
            spans.append((m.start(2) - 1, m.end(2) + 1))
    if b == "grub_pbkdf2_sha512":
        m = re.match(r"^grub\.pbkdf2\.sha512\.(\d+)\.", hs)
        spans.append((m.start(1) - 1, m.end(1) + 1))
    if b == "phpass":
        spans.append((2, 5))
    if b in ("bsdi_crypt", "ldap_bsdi_crypt"):
        off = hs.index("_")
        spans.append((off, off + 6))
    if b == "scrypt" and hs.startswith("$7$"):
        spans.append((2, 15))
    if b == "fshp":
        spans.append((0, hs.index("}") + 1))
    return spans


def mutants(hs, tier):
    """the complete one-edit neighbourhood of hs: (kind, position, mutant)"""
    n = len(hs)
    for i in range(n):
        for c in SUBST:
            if c != hs[i]:
                yield ("subst", i, hs[:i] + c + hs[i + 1:])
        # neighbouring symbol of the same class (a digest/salt value change that stays well-formed)
        ch = hs[i]
        for alpha in (F.H64, "0123456789abcdef", "0123456789ABCDEF", F.STD64):
            if ch in alpha:
                nb = alpha[(alpha.index(ch) + 1) % len(alpha)]
                if nb != ch:
                    yield ("subst-wellformed", i, hs[:i] + nb + hs[i + 1:])
                break
        if ch.isalpha():
            yield ("swapcase", i, hs[:i] + ch.swapcase() + hs[i + 1:])
        yield ("delete", i, hs[:i] + hs[i + 1:])
        yield ("truncate", i, hs[:i])
    for i in range(n + 1):
        for c in INSERT:
            yield ("insert", i, hs[:i] + c + hs[i:])
        if 0 < i <= n:
            yield ("duplicate", i, hs[:i] + hs[i - 1] + hs[i:])


def structural(hs, rng):
    parts = re.split(r"([$,.:|{}=])", hs)
    out = [("empty", "")]
    fields = [i for i, p in enumerate(parts) if p and not re.fullmatch(r"[$,.:|{}=]", p)]
    if len(fields) >= 2:
        for _ in range(4):
            a, b = rng.sample(fields, 2)
            q = list(parts)
            q[a], q[b] = q[b], q[a]
            out.append(("field-swap", "".join(q)))
        for f in fields:
            q = list(parts)
            q[f] = ""
            out.append(("field-emptied", "".join(q)))
            q = list(parts)
            q[f] = q[f] * 2
            out.append(("field-doubled", "".join(q)))
    for sep in "$,.:":
        if sep in hs:
            out.append(("sep-doubled", hs.replace(sep, sep * 2, 1)))
            out.append(("sep-all-doubled", hs.replace(sep, sep * 2)))
            out.append(("sep-removed", hs.replace(sep, "", 1)))
            out.append(("sep-last-removed", "".join(hs.rsplit(sep, 1))))
    for m in re.finditer(r"\d+", hs):
        a, b = m.span()
        num = m.group()
        for rep in ("0" + num, "00" + num, " " + num, num + " ", "+" + num, "-" + num, num[:1] + "_" + num[1:] if len(num) > 1 else num + "_", "9" * 30, "0x" + num, num + ".0", "٣" + num[1:]):
            out.append(("number-respelled", hs[:a] + rep + hs[b:]))
    out += [("whitespace", " " + hs), ("whitespace", hs + " "), ("whitespace", hs + "\n"), ("whitespace", hs + "\r\n"), ("whitespace", "\t" + hs),
            ("doubled", hs + hs), ("reversed", hs[::-1]), ("upper", hs.upper()), ("lower", hs.lower()), ("nul-appended", hs + "\x00"),
            ("non-ascii-appended", hs + "\xff"), ("non-ascii-prepended", "€" + hs)]
    seen, uniq = {hs}, []
    for k, m in out:
        if m not in seen:
            seen.add(m)
            uniq.append((k, m))
    return uniq


def cost_guard(name, hs, spans, kind, pos, mut):
    """False if the edit touches a cost span (the mutated cost might be astronomically expensive):
    such mutants are still identified / needs_update'd, and verified only if the decoded cost stays small"""
    for a, b in spans:
        if a - 1 <= pos <= b:
            nums = [int(x) for x in re.findall(r"\d+", mut[max(0, a - 2):b + 3]) if len(x) < 12] or [0]
            orig = [int(x) for x in re.findall(r"\d+", hs[a:b])] or [0]
            big = max(nums)
            if "bcrypt" in name or (name == "scrypt" and not hs.startswith("$7$")):
                # exponential decimal cost fields: decode the mutated field leniently (as int() would) and verify only if
                # every number in it stays <= the original + 1
                d = len(mut) - len(hs)
                fld = mut[max(0, a - 1):b + 1 + max(d, 0)]
                try:
                    vals = [int(x) for x in re.split(r"[$,=a-z]+", fld) if x.strip() != "" and not re.fullmatch(r"2[abxy]?", x)]
                except ValueError:
                    return True   # not a number for int() either: cannot become a cost
                return all(v <= max(orig) + 1 for v in vals) and len(fld) < 24
            if name in ("scrypt", "phpass") or name.endswith("bsdi_crypt") or name == "fshp":
                # packed cost fields: only verify when the field is textually unchanged
                return mut[a:b] == hs[a:b] and len(mut) == len(hs)
            if name in ("cta_pbkdf2_sha1", "dlitz_pbkdf2_sha1"):
                try:
                    big = max(int(x, 16) for x in re.findall(r"[0-9a-fA-F]+", mut[a:b + 1]) if len(x) < 9)
                except ValueError:
                    return False
            return big <= max(orig) * 12 + 100 and big <= 300000
    if kind in ("field-swap", "field-doubled", "number-respelled", "doubled", "field-emptied", "sep-removed", "sep-last-removed", "sep-doubled", "sep-all-doubled"):
        nums = [int(x) for x in re.findall(r"\d+", mut) if len(x) < 12] or [0]
        if any(len(x) >= 12 for x in re.findall(r"\d+", mut)):
            return False
        if name in ("cta_pbkdf2_sha1", "dlitz_pbkdf2_sha1"):
            return False
        if "bcrypt" in name or name in ("scrypt", "phpass", "fshp") or name.endswith("bsdi_crypt"):
            return kind in ("whitespace",)
        return max(nums) <= 300000
    return True


def field_of(hs, pos):
    """index (from the end) of the separator-delimited field that contains pos, and a coarse class of that field"""
    bounds = [m.start() for m in re.finditer(r"[.]" if hs.startswith("grub.") else r"[$,|{}]", hs)]
    idx = sum(1 for b in bounds if b < pos)
    total = len(bounds)
    from_end = total - idx
    seg_start = max([b for b in bounds if b < pos], default=-1) + 1
    seg_end = min([b for b in bounds if b >= pos], default=len(hs))
    seg = hs[seg_start:seg_end]
    cls = "number" if re.fullmatch(r"(rounds=|ln=|r=|p=|v=|t=)?\d+", seg) else "last-field" if from_end == 0 else "field"
    if hs.startswith("$p5k2$") and idx == 2 and re.fullmatch(r"[0-9a-f]*", seg):
        cls = "number"
    if re.fullmatch(r"\d\d[0-9A-F]*", hs) and pos < 2:
        cls = "number"      # cisco_type7: two decimal digits of salt
    return from_end, cls, seg_start, seg_end


def equivalence(name, bname, hs, mut, kind, pos):
    """is `mut` a documented re-encoding of the very same digest bits / settings as hs? returns label or None"""
    if name in HEXNORM and mut.lower() == hs.lower():
        return "hex-case"
    if "bcrypt" in bname or bname == "django_bcrypt_sha256":
        # ident naming of one algorithm
        m1 = re.search(r"\$2[aby]\$", hs)
        if m1 and len(mut) == len(hs) and kind in ("subst", "subst-wellformed", "swapcase"):
            a, b = m1.span()
            if a <= pos < b and mut[a:b] in ("$2a$", "$2b$", "$2y$") and mut[:a] + mut[b:] == hs[:a] + hs[b:]:
                return "2a/2b/2y-same-algorithm"
        t = re.search(r"t=2[aby]|\$2[aby],", hs)
        if t and len(mut) == len(hs) and t.start() <= pos < t.end() and re.fullmatch(r"t=2[aby]|\$2[aby],", mut[t.start():t.end()]):
            return "2a/2b/2y-same-algorithm"
        # padding bits of the 22nd salt character / 31st checksum character
        if len(mut) == len(hs) and kind in ("subst", "subst-wellformed", "swapcase") and mut[pos] in F.BCRYPT64 and hs[pos] in F.BCRYPT64:
            tail = len(hs) - pos
            v1, v2 = F.BCRYPT64.index(hs[pos]), F.BCRYPT64.index(mut[pos])
            if tail == 1 and (v1 & 0x3C) == (v2 & 0x3C):
                return "padding-bits"
            if bname in ("bcrypt", "django_bcrypt_sha256") and tail == 32 and (v1 & 0x30) == (v2 & 0x30):
                return "padding-bits"
            if bname == "bcrypt_sha256" and hs[pos + 1:pos + 2] == "$" and (v1 & 0x30) == (v2 & 0x30):
                return "padding-bits"
    if bname in B64_UNPADDED or bname in ("pbkdf2_sha1", "pbkdf2_sha256", "pbkdf2_sha512"):
        if len(mut) == len(hs) and kind in ("subst", "subst-wellformed", "swapcase", "insert") or True:
            if len(mut) == len(hs):
                a, b = hs[pos], mut[pos]
                if {a, b} == {".", "+"}:
                    return "plus-for-dot"
                alpha = F.STD64.replace("+", ".") if bname != "scrypt" else F.STD64
                _, _, s0, s1 = field_of(hs, pos)
                seg = hs[s0:s1]
                body = seg.split("=")[-1] if "=" in seg else seg
                if pos == s1 - 1 and a in alpha and b in alpha:
                    used = {2: 0x30, 3: 0x3C}.get(len(body) % 4)
                    if used and (alpha.index(a) & used) == (alpha.index(b) & used):
                        return "padding-bits"
    if bname in ("cta_pbkdf2_sha1", "fshp", "ldap_salted_md5", "ldap_salted_sha1", "ldap_salted_sha256", "ldap_salted_sha512", "atlassian_pbkdf2_sha1",
                 "ldap_md5", "ldap_sha1", "django_pbkdf2_sha1", "django_pbkdf2_sha256") and len(mut) == len(hs):
        alpha = F.STD64 if bname != "cta_pbkdf2_sha1" else F.STD64.replace("+", "-").replace("/", "_")
        a, b = hs[pos], mut[pos]
        if a in alpha and b in alpha:
            npad = len(hs[pos + 1:]) - len(hs[pos + 1:].lstrip("="))
            after = hs[pos + 1 + npad:pos + 2 + npad]
            if npad in (1, 2) and after in ("", "$"):
                used = {2: 0x30, 1: 0x3C}[npad]
                if (alpha.index(a) & used) == (alpha.index(b) & used):
                    return "padding-bits"
    if len(mut) == len(hs) and kind in ("subst", "subst-wellformed", "swapcase") and bname not in ("bcrypt", "bcrypt_sha256", "django_bcrypt_sha256") \
            and "crypt" not in bname and bname not in ("phpass",):
        # same decoded bytes = same digest bits (unused padding bits of a final character, '+' written for '.')
        import base64 as _b64
        _, _, s0, s1 = field_of(hs, pos)
        f1, f2 = hs[s0:s1], mut[s0:s1]
        if "=" in f1 and not f1.endswith("=") and bname == "scram":
            f1, f2 = f1.split("=", 1)[1], f2.split("=", 1)[-1]

        def dec(x):
            x = x.rstrip("=")
            if not re.fullmatch(r"[A-Za-z0-9+/._-]*", x) or len(x) % 4 == 1:
                return None
            x = x.replace(".", "+").replace("-", "+").replace("_", "/")
            try:
                return _b64.b64decode(x + "=" * (-len(x) % 4), validate=True)
            except Exception:
                return None
        d1, d2 = dec(f1), dec(f2)
        if d1 is not None and d1 == d2 and f1.count("=") == f2.count("="):
            return "same-decoded-bytes(padding-bits-or-alias)"
    if bname == "django_des_crypt" and len(hs.split("$")) == 3:
        a = hs.index("$") + 1
        b = hs.index("$", a)
        if a + 2 <= pos < b + (1 if len(mut) > len(hs) else 0) or (mut.split("$")[0] == hs.split("$")[0] and mut.split("$")[-1] == hs.split("$")[-1] and mut.split("$")[1][:2] == hs.split("$")[1][:2] and len(mut.split("$")) == 3):
            return "FINDING:salt-tail-ignored"
    if name == "mssql2000" and len(mut) == len(hs) and 14 <= pos < 54 and mut[pos] in "0123456789abcdefABCDEF":
        return "mssql2000-first-digest-unused"
    return None


LEGAL = set("./+0123456789ABCDEFGHIJKLMNOPQRSTUVWXYZabcdefghijklmnopqrstuvwxyz")


def edit_class(hs, mut, kind, pos, fcls="field"):
    """root-cause class of an accepted edit: int-leniency (a number field spelled non-canonically), malformed-accepted
    (the mutant is not a well-formed string of the format at all), value-changed (well-formed, a different value)"""
    if kind == "number-respelled":
        return "int-leniency"
    same_len_subst = len(mut) == len(hs) and kind in ("subst", "subst-wellformed", "swapcase")
    c = mut[pos] if pos < len(mut) else ""
    if fcls == "number":
        if same_len_subst and c.isdigit() and c.isascii():
            return "value-changed"
        if same_len_subst and c in "abcdefABCDEF" and hs.startswith("$p5k2$"):
            return "int-leniency" if c.lower() == hs[pos].lower() else "value-changed"
        if (c in " \t\r\n+-_0" or not c.isascii()) and kind in ("insert", "duplicate", "subst", "subst-wellformed"):
            return "int-leniency"
    if same_len_subst and c in LEGAL and c not in "+=" and hs[pos] in LEGAL:
        return "value-changed"
    return "malformed-accepted"


def run_one(run, name, h, ctxobj, hs, pw, ctx, spans, kind, pos, mut, form, raw=None):
    bname = H.base_name(h)
    if raw is not None:
        inp = raw
        mut = raw.decode("latin-1")
    else:
        inp = mut if form == "str" else mut.encode("utf-8")
    w = dict(hasher=name, original=hs, mutant=inp, edit=kind, position=pos, form=form)
    rp = f"import warnings; warnings.simplefilter('ignore')\nimport passlib.hash as H\nm={inp!r}\n"
    # identify
    for who, obj in (("hasher", h), ("context", ctxobj)):
        try:
            r = obj.identify(inp)
            if who == "hasher" and not isinstance(r, bool):
                run.violation(f"C08|{name}|identify-non-bool", f"{name}.identify returned {r!r}", w)
        except Exception as e:
            run.violation(f"C08|{name if who == 'hasher' else 'context:' + name}|identify-raises|{type(e).__name__}",
                          f"{who} identify() raised {type(e).__name__}: {str(e)[:80]} for a {kind} mutant ({form})", w, rp + f"print(H.{name}.identify(m))")
    # needs_update
    try:
        h.needs_update(inp)
    except OK_EXC:
        pass
    except Exception as e:
        run.violation(f"C08|{name}|needs_update-raises|{type(e).__name__}", f"{name}.needs_update() raised {type(e).__name__}: {str(e)[:80]} ({kind} mutant, {form})", w,
                      rp + f"print(H.{name}.needs_update(m))")
    if not cost_guard(bname if bname != "bsdi_crypt" else name, hs, spans, kind, pos, mut):
        run.count("verify_skipped_cost_field")
        return
    # verify through hasher and context
    for who, fn in (("hasher", lambda: h.verify(pw, inp, **ctx)), ("context", lambda: ctxobj.verify(pw, inp, **ctx))):
        signal.setitimer(signal.ITIMER_REAL, 20)
        try:
            r = fn()
        except OK_EXC:
            run.count("clean_rejections")
            continue
        except Timeout:
            run.count("verify_timeouts")
            continue
        except Exception as e:
            run.violation(f"C08|{name if who == 'hasher' else 'context:' + name}|verify-raises|{type(e).__name__}",
                          f"{who} verify() raised {type(e).__name__}: {str(e)[:80]} for a {kind} mutant ({form})", w,
                          rp + (f"print(H.{name}.verify({pw!r}, m, **{ctx!r}))" if who == "hasher" else "# through CryptContext(schemes=[...])"))
            continue
        finally:
            signal.setitimer(signal.ITIMER_REAL, 0)
        run.count("verify_answers")
        if r is True:
            eq = equivalence(name, bname, hs, mut, kind, pos)
            if eq and eq.startswith("FINDING:"):
                run.violation(f"C08|{name}|altered-hash-verifies|{eq[8:]}", f"{name}: {eq[8:]}: a {kind} mutant (position {pos}) still verifies the original password", w,
                              rp + f"print(H.{name}.verify({pw!r}, m, **{ctx!r}))")
                continue
            if eq:
                run.count(f"documented-equivalent:{eq}")
                continue
            if bname in H.PLAIN or name in H.DISABLED:
                continue
            fe, fcls, _, _ = field_of(hs, min(pos, len(hs) - 1)) if kind not in ("empty",) else (0, "field", 0, 0)
            ec = edit_class(hs, mut, kind, pos, fcls)
            if bname == "scram" and ec != "int-leniency":
                # scram documents that verify() checks one digest only; full=True checks the whole hash
                try:
                    full = h.verify(pw, inp, full=True)
                except OK_EXC:
                    full = False
                if full is not True:
                    run.count("documented-equivalent:scram-partial-verify")
                    continue
                # a scram hash may carry any set of digests (sha-1 is mandatory): dropping whole digests leaves a
                # well-formed hash of the same password with fewer algorithms
                try:
                    def amap(x):
                        pre, lst = x.rsplit("$", 1)
                        return pre, dict(p.split("=") for p in lst.split(","))
                    p1, m1 = amap(hs)
                    p2, m2 = amap(mut)
                    if p1 == p2 and m2 and all(m1.get(k) == v for k, v in m2.items()):
                        run.count("documented-equivalent:scram-subset-of-digests")
                        continue
                except ValueError:
                    pass
                ec += "+full"
            run.violation(f"C08|{name}|altered-hash-verifies|{ec}",
                          f"{name}: a {kind} mutant (position {pos}, {fcls} field, {ec}) of a valid hash still verifies the original password",
                          dict(w, field_from_end=fe), rp + f"print(H.{name}.verify({pw!r}, m, **{ctx!r}))")
        elif r is not False:
            run.violation(f"C08|{name}|verify-non-bool", f"{name}.verify returned {r!r}", w)


def work(run, names):
    from passlib.context import CryptContext
    signal.signal(signal.SIGALRM, _alarm)
    rng = run.rng(",".join(names))
    for name in names:
        h = H.get(name)
        if not H.usable(name):
            continue
        bname = H.base_name(h)
        try:
            ctxobj = CryptContext(schemes=[name])
        except Exception as e:
            run.note(f"{name}: cannot be put in a context: {e}")
            continue
        for si, (hs, pw, ctx, st) in enumerate(seeds_for(h, rng, run.tier)):
            spans = cost_spans(bname if not name.endswith("bsdi_crypt") else name, hs)
            n = 0
            slow = ("bcrypt" in bname) or bname in ("scrypt",)
            for kind, pos, mut in mutants(hs, run.tier):
                form = "str" if (n % 5) else "bytes"
                if slow and kind == "subst" and n % 3:   # the slow hashers get every position, a third of the alphabet per position
                    n += 1
                    run.count("slow_hasher_mutants_subsampled")
                    continue
                run_one(run, name, h, ctxobj, hs, pw, ctx, spans, kind, pos, mut, form)
                n += 1
                run.evaluations += 1
            # bytes-only mutants: one byte replaced by a byte that is not valid UTF-8
            raw = hs.encode("utf-8")
            for i in range(len(raw)):
                for bad in (0xFF, 0x91) if i % 4 == 0 else (0xFF,):
                    run_one(run, name, h, ctxobj, hs, pw, ctx, spans, "subst-invalid-utf8", i, None, "rawbytes", raw=raw[:i] + bytes([bad]) + raw[i + 1:])
                    run.evaluations += 1
            run.distinct.add(f"{name}|seed{si}|subst-invalid-utf8")
            run.distinct.add(f"{name}|seed{si}|one-edit-neighbourhood|{len(hs)}")
            for k in ("subst", "delete", "insert", "truncate"):
                run.distinct.add(f"{name}|seed{si}|{k}")
            for kind, mut in structural(hs, rng):
                run_one(run, name, h, ctxobj, hs, pw, ctx, spans, kind, 0, mut, "str")
                run.evaluations += 1
                run.distinct.add(f"{name}|structural|{kind}")
            if len(run.samples) < 12 and si == 0:
                run.samples.append(dict(hasher=name, seed_hash=hs, password=pw, one_edit_mutants=n, example_mutant=hs[:len(hs) // 2] + "!" + hs[len(hs) // 2 + 1:]))
            run.count(f"seeds:{name}")
            run.count("mutants", n)
        # random strings
        for i in range(150 if run.tier == "quick" else 1500):
            ln = rng.choice([0, 1, 2, 5, 13, 20, 32, 34, 60, 100])
            alpha = rng.choice(["$./0123456789abcdefABCXYZ", "".join(chr(c) for c in range(32, 127)), "$2ab0123456789,=", "\x00\xff$a1 "])
            s = "".join(rng.choice(alpha) for _ in range(ln))
            if rng.random() < 0.4 and getattr(h, "ident", None):
                s = h.ident + s
            run_one(run, name, h, ctxobj, "", "pw", H.ctx_for(h, rng, simple=True), [], "random", 0, s, "str" if i % 3 else "bytes")
            run.evaluations += 1
        run.distinct.add(f"{name}|random-strings")


def plaintext_family(run):
    """the plaintext-family "hashes" are the password text: an altered stored value must not verify the original password,
    also for text that cannot be encoded (lone surrogates) and for stored bytes read under a non-default encoding"""
    prefixes = {"plaintext": "", "ldap_plaintext": "", "roundup_plaintext": "{plaintext}"}
    for name, pre in prefixes.items():
        h = H.get(name)
        for stored, alts in (("pw\udc80x", ["pw\udc81x", "pw?x", "pw\ufffdx", "pwx"]), ("\ud800abc", ["\ud801abc", "?abc", "abc"]), ("pässwörd", ["passwörd", "pässwörd ", "PÄSSWÖRD"])):
            for alt in alts:
                for form in ("str", "bytes"):
                    try:
                        arg = pre + alt if form == "str" else (pre + alt).encode("utf-8", "surrogatepass")
                    except UnicodeError:
                        continue
                    try:
                        r = h.verify(stored, arg)
                    except (ValueError, TypeError):
                        r = "refused"
                    except Exception as e:
                        run.violation(f"C08|{name}|plaintext-family|internal-error|{type(e).__name__}", f"{name}.verify raised {type(e).__name__}: {str(e)[:80]}", dict(hasher=name, password=repr(stored), stored=repr(arg)))
                        continue
                    run.count("plaintext_family_cases")
                    run.case((name, "plaintext-family", "surrogate" if any(0xD800 <= ord(c) <= 0xDFFF for c in stored) else "text", form), dict(hasher=name, password=repr(stored), stored=repr(arg), answer=str(r)))
                    if r is True:
                        run.violation(f"C08|{name}|altered-hash-verifies|plaintext-value-changed", f"{name}: the stored value {arg!r} verifies the password {stored!r} although they differ", dict(hasher=name, password=repr(stored), stored=repr(arg)))
        if "encoding" in getattr(h, "context_kwds", ()) and not hasattr(h, "wrapped"):      # (a prefix wrapper has to decode the value before it knows the encoding)
            for enc in ("latin-1", "cp1252", "koi8-r"):
                pw = "p\u00e4ssw\u00f6rd" if enc != "koi8-r" else "\u043f\u0430\u0440\u043e\u043b\u044c"
                genuine, foreign = (pre + pw).encode(enc), (pre + pw).encode("utf-8")
                try:
                    a, b = h.verify(pw, genuine, encoding=enc), None
                    try:
                        b = h.verify(pw, foreign, encoding=enc)
                    except (ValueError, TypeError):
                        b = "refused"
                except Exception as e:
                    run.violation(f"C08|{name}|plaintext-family|encoding|{type(e).__name__}", f"{name}.verify(.., encoding={enc!r}) raised {type(e).__name__}: {str(e)[:80]}", dict(hasher=name, encoding=enc))
                    continue
                run.count("plaintext_family_cases")
                run.case((name, "plaintext-family", "encoding", enc), None)
                if a is not True or b is True:
                    run.violation(f"C08|{name}|altered-hash-verifies|stored-bytes-under-another-encoding" if b is True else f"C08|{name}|plaintext-family|genuine-bytes-rejected",
                                  f"{name} with encoding={enc!r}: the value stored in that encoding verifies={a!r}; the UTF-8 bytes of the password (different text under {enc}) verify={b!r}", dict(hasher=name, encoding=enc, password=pw))


def body(run):
    names = H.names()
    order = sorted(names, key=lambda n: (("bcrypt" in n) * 2 + (n in ("scrypt",)), n))
    shards = [dict(names=order[i::16]) for i in range(16)]
    run.parallel("checks.c08", "work", shards, timeout=1400 if run.tier == "quick" else 6000)
    plaintext_family(run)
    run.require("plaintext_family_cases", 30)
    for n in names:
        if H.usable(n):
            run.require(f"seeds:{n}", 2 if (n not in H.PLAIN and n not in H.DISABLED) else 1)
    run.require("mutants", 100000)
    run.require("clean_rejections", 50000)
    run.exhaustive = True
    run.extra["exhaustive_scope"] = "the single-edit neighbourhood (substitution alphabet below, deletion, insertion alphabet below, truncation, at every position) of every seed hash"
    run.extra["substitution_alphabet"] = SUBST
    run.extra["insertion_alphabet"] = INSERT
    run.assumptions += ["documented equivalences: hex letter case (formats that normalise it), unused padding bits of a final base64 character, '+' for '.' in adapted base64, "
                        "2a/2b/2y names of the identical bcrypt algorithm, mssql2000's unused first digest",
                        "mutants whose edit changes a cost field to a large or undecodable value are identified and update-checked but not verified (a verify could take hours); counted in verify_skipped_cost_field"]


if __name__ == "__main__":
    main("C08", "exploration", RULE, body)
