"""C02 - every format computes the published algorithm bit for bit.

Differential monitor: the real hashers of /repo (default backend *and* forced pure-python `builtin`
backend) are driven over generated (password, salt, cost, variant, context) inputs; each produced
string is compared with the string produced by the independent references in vlib/refimpl (spec
loops over hashlib, textbook DES/MD4, the bcrypt wheel, OS crypt(), Django's hashers).  Reverse
direction: reference-made strings must verify under passlib (and not verify a changed password).
"""
import sys

from vlib import hashers as H
from vlib.refimpl import formats as F
from vlib.run import main

RULE = ("case = (format, backend, password bytes, settings incl. salt/cost/variant, context); generated from the "
        "hasher's declared limits (cost boundaries incl. multiples of 42 / powers of two, every salt size with extreme "
        "symbols, every ident/variant) x password lengths of the property's list x byte classes; distinct = distinct "
        "(format, backend, length, byte-class, cost, salt size, variant) tuples with a non-empty comparison")


def norm_settings(name, st):
    """translate using()-style values into the explicit values the reference wants"""
    st = dict(st)
    b = name
    if "ident" in st and b in ("bcrypt", "bcrypt_sha256", "django_bcrypt", "django_bcrypt_sha256", "ldap_bcrypt", "phpass"):
        i = st["ident"]
        st["ident"] = i if i.startswith("$") else f"${i}$"
    if b == "fshp" and "variant" in st:
        st["variant"] = {"sha1": 0, "sha256": 1, "sha384": 2, "sha512": 3}.get(st["variant"], st["variant"])
    if b == "scram":
        algs = st.get("algs", ["sha-1", "sha-256", "sha-512"])
        if isinstance(algs, str):
            algs = algs.split(",")
        st["algs"] = [a.strip() for a in algs]
    if b in ("sha256_crypt", "sha512_crypt", "ldap_sha256_crypt", "ldap_sha512_crypt"):
        st["implicit_rounds"] = st.get("implicit_rounds", True)
    return st


def passwords(rng, k, name, tier):
    """k-th slice of the password set: rotates through the property's length list so that every length
    is compared for every format over the settings sweep"""
    L = H.C02_LENGTHS
    n = 5 if tier == "quick" else 9
    out = []
    for j in range(n):
        ln = L[(k * n + j) % len(L)]
        kind = ("ascii", "binary", "ws", "high", "binary", "ascii")[(k + j) % 6]
        out.append((H.pw_bytes(rng, ln, kind), kind))
    # text passwords with multi-byte characters (given as str)
    out.append((H.pw_text(rng, rng.choice([1, 3, 8, 20])), "text"))
    out.append((H.pw_latin1_text(rng, rng.choice([2, 5, 9])), "text-latin1"))
    if k % 7 == 0:
        out.append((H.pw_bytes(rng, rng.choice([1000, 4093, 4094]), "ascii"), "ascii"))
    return out


def too_slow(name, st, pw, backend):
    r = st.get("rounds")
    if name.endswith("bsdi_crypt") and r and r > 70:
        return "osref"   # textbook DES would take too long: use OS crypt as the reference
    return None


def ref_for(base, secret, st, ctx):
    """reference string; crypt-family costs that are too slow for the textbook code go to OS crypt"""
    r = st.get("rounds")
    if base.endswith("bsdi_crypt") and r and r > 70:
        out = F.os_crypt(secret, "_" + F.to64(r, 4) + st["salt"])
        return ("{CRYPT}" if base.startswith("ldap_") else "") + out
    slow = bool(r and r <= 300)
    return F.ref_hash(base, secret, st, ctx, slow=slow)


def work(run, names, backend):
    import passlib.hash
    rng = run.rng(f"{backend}:{','.join(names)}")
    probs = F.selftest()
    if probs:
        run.set_inconclusive("reference self-validation failed: " + "; ".join(probs)[:300])
        return
    for name in names:
        h = H.get(name)
        base = name
        if not H.usable(name):
            run.note(f"{name}: no backend on this host")
            continue
        if backend in ("builtin", "os_crypt"):
            bk = getattr(h, "backends", None)
            if not bk or backend not in bk:
                continue
            try:
                if backend == "os_crypt" and not h.has_backend("os_crypt"):
                    continue
                h.set_backend(backend)
            except Exception as e:
                run.violation(f"C02|{name}|{backend}|set_backend|{type(e).__name__}",
                              f"{name}: {backend} backend cannot be selected: {e}", dict(name=name))
                continue
        bname = H.base_name(h)
        slist = H.settings_list(h, rng, run.tier)
        if backend == "builtin" and bname in ("bcrypt", "bcrypt_sha256", "django_bcrypt_sha256"):
            slist = [s for s in slist if s.get("rounds", 4) <= 5][: (8 if run.tier == "quick" else 30)]
        for k, st in enumerate(slist):
            try:
                hh = H.apply(h, st)
            except Exception as e:
                run.count("using_refused")
                run.count(f"using_refused:{name}:{type(e).__name__}")
                continue
            nst = norm_settings(name, st)
            pws = passwords(rng, k, name, run.tier)
            if backend == "builtin" and bname.startswith("bcrypt") or bname == "django_bcrypt_sha256" and backend == "builtin":
                pws = pws[:3]
            if backend == "os_crypt":
                # the host's crypt() only takes text: long and boundary-straddling multi-byte passwords are the interesting ones here
                pws = [(p_, k_) for p_, k_ in pws if not isinstance(p_, bytes) or H.is_utf8(p_)][:4]
                if bname.startswith("bcrypt") or bname == "django_bcrypt_sha256":
                    pws += [("a" + "é" * 40, "text"), ("ab" + "\u20ac" * 30, "text"), ("abc" + "\U0001f600" * 20, "text"), ("é" * 300, "text"), ("x" * 71 + "\u20ac" * 200, "text")]
            for pw, kind in pws:
                secret = pw.encode("utf-8") if isinstance(pw, str) else pw
                ctx = H.ctx_for(h, rng)
                if kind == "text-latin1" and bname == "htdigest":
                    ctx["encoding"] = "latin-1"
                    ctx["user"], ctx["realm"] = rng.choice(["u", "üser"]), rng.choice(["r", "réalm"])
                    secret = pw.encode("latin-1")      # the algorithm is defined on the bytes of the configured encoding
                if bname in ("cisco_pix", "cisco_asa") and len(secret) > h.truncate_size:
                    secret = secret[: rng.choice([h.truncate_size, 13, 15, 16, 27, 28, 12])]
                    pw = secret
                if isinstance(pw, bytes) and not H.is_utf8(pw) and (bname in H.TRANSCODING or bname in ("cisco_pix", "cisco_asa")):
                    continue
                if bname == "ldap_plaintext" and (not secret or (secret.startswith(b"{") and b"}" in secret)):
                    continue
                if bname == "lmhash":
                    try:
                        (pw if isinstance(pw, str) else pw.decode("utf-8")).upper().encode(ctx.get("encoding") or "cp437")
                    except UnicodeError:
                        continue
                try:
                    want = ref_for(name, secret, nst, ctx)
                except F.NotCovered as e:
                    run.count(f"ref_not_covered:{name}")
                    continue
                except (UnicodeError, ValueError) as e:
                    run.count(f"ref_rejects:{name}:{type(e).__name__}")
                    continue
                try:
                    got = hh.hash(pw, **ctx)
                except Exception as e:
                    # the reference could hash it but passlib refused: acceptable only for documented domains
                    if isinstance(e, (ValueError, TypeError)) and refusal_ok(bname, secret, backend):
                        run.count(f"passlib_refuses_documented:{name}")
                        continue
                    run.violation(f"C02|{name}|{backend}|hash-raises|{type(e).__name__}",
                                  f"{name} ({backend}): hash() raised {type(e).__name__}: {str(e)[:120]} for an input the reference hashes",
                                  dict(name=name, settings=st, password=pw, ctx=ctx, backend=backend))
                    continue
                key = (name, backend, len(secret), kind, st.get("rounds"), len(st["salt"]) if isinstance(st.get("salt"), (str, bytes)) else st.get("salt"),
                       ",".join(f"{a}={b}" for a, b in sorted(st.items()) if a not in ("salt", "rounds")))
                if got != want:
                    run.violation(f"C02|{name}|{backend}|digest-mismatch",
                                  f"{name} ({backend}): hash differs from the independent reference",
                                  dict(name=name, settings=st, password=pw, ctx=ctx, backend=backend, passlib=got, reference=want),
                                  repro=repro(name, st, pw, ctx, backend, want))
                run.case(key, dict(format=name, backend=backend, password=pw, settings=st, ctx=ctx, hash=got))
                run.count(f"cmp:{name}:{backend}")
                if len(secret) >= 96:
                    run.count(f"len>=96:{bname}:{backend}")
                # reverse direction: the reference-made string verifies under passlib, a changed password does not
                try:
                    ok = h.verify(pw, want, **ctx)
                    other = other_password(h, bname, secret)
                    bad = None
                    if other is not None:
                        try:
                            bad = h.verify(other, want, **ctx)
                        except ValueError:
                            run.count("other_password_refused")  # e.g. scram: the altered text is SASLprep-prohibited
                except Exception as e:
                    run.violation(f"C02|{name}|{backend}|verify-ref-raises|{type(e).__name__}",
                                  f"{name}: verify() of a reference-made hash raised {type(e).__name__}: {str(e)[:100]}",
                                  dict(name=name, hash=want, password=pw, ctx=ctx))
                    continue
                if not ok:
                    run.violation(f"C02|{name}|{backend}|ref-hash-rejected",
                                  f"{name} ({backend}): hash made by the independent reference does not verify",
                                  dict(name=name, hash=want, password=pw, ctx=ctx))
                if bad:
                    run.violation(f"C02|{name}|{backend}|ref-hash-accepts-other",
                                  f"{name} ({backend}): reference-made hash verifies a different password",
                                  dict(name=name, hash=want, password=pw, other=other, ctx=ctx))
                run.count("reverse_verifies")


def other_password(h, bname, secret):
    """a password that differs from `secret` outside every documented equivalence of the format (or None)"""
    trunc = getattr(h, "truncate_size", None)
    if trunc and len(secret) >= trunc:
        # change the first byte instead (inside the significant prefix)
        first = b"1" if (secret[0] & 0x7F) != ord("1") else b"2"   # a digit: no case folding, differs in the low 7 bits
        cand = first + secret[1:]
        if not H.is_utf8(cand) and (bname in H.TRANSCODING or bname.startswith("cisco")):
            return None
        return cand
    return secret + (b"9" if bname in ("lmhash", "oracle10", "mssql2000") else b"Zq")


def refusal_ok(bname, secret, backend):
    if b"\x00" in secret:
        return True
    if not H.is_utf8(secret) and (bname in H.TRANSCODING):
        return True
    if not H.is_utf8(secret) and bname in ("bcrypt", "bcrypt_sha256", "django_bcrypt_sha256") and backend != "builtin":
        # os_crypt backend documents utf-8 only; only reachable if the bcrypt package is missing
        return False
    return False


def repro(name, st, pw, ctx, backend, want):
    return (f"import warnings; warnings.simplefilter('ignore')\nimport passlib.hash as H\nh = H.{name}\n"
            + (f"h.set_backend({backend!r})\n" if backend in ("builtin", "os_crypt") else "")
            + f"got = h.using(**{st!r}).hash({pw!r}, **{ctx!r})\nprint('passlib  :', got)\nprint('reference:', {want!r})\n"
            + "raise SystemExit(0 if got == " + repr(want) + " else 1)\n")


def sun_md5_bare(run):
    """sun_md5_crypt strings in the bare-salt spelling exist only as strings (using() cannot make them): OS crypt() makes them,
    passlib must verify them and reproduce them with genhash()"""
    import passlib.hash as PH
    rng = run.rng("sunbare")
    h = PH.sun_md5_crypt
    for i in range(12 if run.tier == "quick" else 120):
        salt = "".join(rng.choice(F.H64) for _ in range(rng.choice([1, 4, 8, 16])))
        rounds = rng.choice([0, 0, 1, 7, 100, 4095])
        cfg = ("$md5,rounds=%d$%s" % (rounds, salt)) if rounds else "$md5$" + salt
        pw = H.pw_bytes(rng, rng.choice([1, 8, 30]), "ascii").decode()
        for variant, config in (("bare", cfg), ("terminated", cfg + "$")):
            try:
                want = F.os_crypt(pw.encode(), config)
            except F.NotCovered:
                continue
            try:
                ok, bad, again = h.verify(pw, want), h.verify(pw + "x", want), h.genhash(pw, want)
            except Exception as e:
                run.violation(f"C02|sun_md5_crypt|oscrypt-{variant}|raises|{type(e).__name__}", f"sun_md5_crypt: OS-crypt-made {variant}-salt hash raises {type(e).__name__}: {e}", dict(hash=want, password=pw))
                continue
            run.case(("sun_md5_crypt", "oscrypt-" + variant, rounds > 0, len(salt)), dict(format="sun_md5_crypt", spelling=variant, os_crypt_hash=want, password=pw))
            run.count("cmp:sun_md5_crypt:oscrypt-" + variant)
            if ok is not True or bad or again != want:
                run.violation(f"C02|sun_md5_crypt|oscrypt-{variant}|{'rounds' if rounds else 'no-rounds'}|rejected",
                              f"sun_md5_crypt: a {variant}-salt hash made by OS crypt() (rounds={rounds}): verify={ok} wrong-password={bad} genhash-equal={again == want}",
                              dict(hash=want, password=pw, genhash=again),
                              repro=f"import passlib.hash as H\nprint(H.sun_md5_crypt.verify({pw!r}, {want!r}))")


def django_cross(run):
    """django_* formats against Django's own hashers, both directions"""
    try:
        import django
        from django.conf import settings
        if not settings.configured:
            settings.configure()
        from django.contrib.auth import hashers as DJ
    except Exception as e:
        run.note(f"django not importable: {e}")
        return
    import passlib.hash as PH
    rng = run.rng("django")
    pairs = [("django_pbkdf2_sha256", DJ.PBKDF2PasswordHasher), ("django_pbkdf2_sha1", DJ.PBKDF2SHA1PasswordHasher),
             ("django_bcrypt", DJ.BCryptPasswordHasher), ("django_bcrypt_sha256", DJ.BCryptSHA256PasswordHasher),
             ("django_salted_md5", DJ.MD5PasswordHasher)]
    n = 6 if run.tier == "quick" else 40
    for name, cls in pairs:
        h = getattr(PH, name)
        dj = cls()
        for i in range(n):
            pw = H.pw_text(rng, rng.choice([1, 5, 12, 30]), widths=(1, 1, 2, 3))
            if "bcrypt" in name:
                dj.rounds = 4
                dh = dj.encode(pw, dj.salt())
                ph = h.using(rounds=4).hash(pw)
            elif "pbkdf2" in name:
                it = rng.choice([1, 2, 41, 100, 999])
                salt = "".join(rng.choice("abcXYZ019") for _ in range(rng.choice([1, 8, 12, 22])))
                dh = dj.encode(pw, salt, iterations=it)
                ph = h.using(rounds=it, salt=salt).hash(pw)
                if dh != ph:
                    run.violation(f"C02|{name}|django|digest-mismatch", f"{name}: differs from Django's own hasher",
                                  dict(name=name, password=pw, django=dh, passlib=ph))
            else:
                salt = "".join(rng.choice("abcXYZ019") for _ in range(rng.choice([1, 8, 12])))
                dh = dj.encode(pw, salt)
                ph = h.using(salt=salt).hash(pw)
                if dh != ph:
                    run.violation(f"C02|{name}|django|digest-mismatch", f"{name}: differs from Django's own hasher",
                                  dict(name=name, password=pw, django=dh, passlib=ph))
            if not h.verify(pw, dh) or h.verify(pw + "x", dh):
                run.violation(f"C02|{name}|django|django-hash-rejected", f"{name}: Django-made hash does not verify exactly its password",
                              dict(name=name, password=pw, hash=dh))
            if not dj.verify(pw, ph) or dj.verify(pw + "x", ph):
                run.violation(f"C02|{name}|django|passlib-hash-rejected-by-django", f"{name}: passlib-made hash not accepted by Django",
                              dict(name=name, password=pw, hash=ph))
            run.case((name, "django", len(pw), i % 3), dict(format=name, django_hash=dh, password=pw))
            run.count(f"cmp:{name}:django")


def libpass_diff(run):
    """libpass hashers against the same references"""
    rng = run.rng("libpass")
    lp = H.libpass_hashers()
    n = 10 if run.tier == "quick" else 60
    for name, (cls, kw) in lp.items():
        for i in range(n):
            ln = H.C02_LENGTHS[(i * 3 + len(name)) % len(H.C02_LENGTHS)]
            if "bcrypt" == name:
                ln = min(ln, 72)
            pw = H.pw_bytes(rng, ln, "ascii" if i % 2 else "binary")
            try:
                if name.endswith("_crypt"):
                    r = rng.choice([1000, 1001, 1041, 1042, 1043, 5000, 2049])
                    salt = "".join(rng.choice(F.H64) for _ in range(rng.choice([1, 8, 15, 16])))
                    inst = cls(rounds=r)
                    if i % 2:
                        # the same hasher object first verifies a reference-made hash of another cost, then hashes: its own cost must still apply
                        other = F.sha_crypt(name[:6], pw, salt[::-1], r + 7)
                        run.count("libpass_verify_then_hash")
                        if inst.verify(other, pw) is not True:
                            run.violation(f"C02|libpass.{name}|ref-hash-rejected", f"libpass {name}: a reference-made hash (rounds {r + 7}) is rejected", dict(name=name, password=pw, hash=other))
                    got = inst.hash(pw, salt=salt)
                    want = F.sha_crypt(name[:6], pw, salt, r)
                elif name.startswith("pbkdf2"):
                    r = rng.choice([1, 2, 3, 100, 1000])
                    salt = H.pw_bytes(rng, rng.choice([1, 8, 16, 33]), "binary")
                    inst = cls(rounds=r)
                    if i % 2:
                        other = F.pbkdf2_digest(name[7:], pw, salt[::-1] + b"x", r + 5, slow=True)
                        run.count("libpass_verify_then_hash")
                        if inst.verify(other, pw) is not True:
                            run.violation(f"C02|libpass.{name}|ref-hash-rejected", f"libpass {name}: a reference-made hash (rounds {r + 5}) is rejected", dict(name=name, password=pw, hash=other))
                    got = inst.hash(pw, salt=salt)
                    want = F.pbkdf2_digest(name[7:], pw, salt, r, slow=True)
                elif name == "bcrypt":
                    salt22 = H.gen_salt(H.get("bcrypt"), rng, 22)
                    pref = rng.choice(["2a", "2b"])
                    got = cls(rounds=4, prefix=pref).hash(pw, salt=f"${pref}$04${salt22}".encode())
                    want = F.bcrypt(pw, salt22, 4, f"${pref}$")
                else:
                    salt22 = H.gen_salt(H.get("bcrypt"), rng, 22)
                    got = cls(rounds=4).hash(pw, salt=f"$2b$04${salt22}".encode())
                    want = F.bcrypt_sha256(pw, salt22, 4, "$2b$", 2)
            except F.NotCovered:
                continue
            except Exception as e:
                run.violation(f"C02|libpass.{name}|hash-raises|{type(e).__name__}", f"libpass {name}: hash() raised {e}",
                              dict(name=name, password=pw))
                continue
            if got != want:
                run.violation(f"C02|libpass.{name}|digest-mismatch", f"libpass {name}: differs from the reference",
                              dict(name=name, password=pw, libpass=got, reference=want))
            run.case(("libpass." + name, len(pw), i % 4), dict(format="libpass." + name, password=pw, hash=got))
            run.count(f"cmp:libpass.{name}")


def htdigest_encodings(run):
    """htdigest under non-default encodings: MD5(user:realm:password) over the bytes of THAT encoding, in hash() and verify() alike"""
    import hashlib
    import passlib.hash as PH
    for enc in ("latin-1", "cp1252", "iso-8859-15", "utf-8", "koi8-r"):
        for user, realm, pw in (("\u00fcser", "r\u00e9alm", "p\u00e4ssw\u00f6rd"), ("u", "r", "p\u00e4ss"), ("\u00fcser", "r", "pw"), ("u", "r\u00e9alm", "pw")):
            if enc == "koi8-r":
                user, realm, pw = "\u044e\u0437\u0435\u0440", "r", "\u043f\u0430\u0440\u043e\u043b\u044c"
            want = hashlib.md5(f"{user}:{realm}:{pw}".encode(enc)).hexdigest()
            w = dict(format="htdigest", encoding=enc, user=user, realm=realm, password=pw, reference=want)
            try:
                got = PH.htdigest.hash(pw, user, realm, encoding=enc)
                ok = PH.htdigest.verify(pw, want, user, realm, encoding=enc)
                ok_b = PH.htdigest.verify(pw.encode(enc), want, user.encode(enc), realm.encode(enc), encoding=enc)
                bad = PH.htdigest.verify(pw + "x", want, user, realm, encoding=enc)
            except Exception as e:
                run.violation(f"C02|htdigest|encoding|raises|{type(e).__name__}", f"htdigest with encoding={enc!r} raised {type(e).__name__}: {str(e)[:80]}", w)
                continue
            run.count("htdigest_encoding_cases")
            run.case(("htdigest", "encoding", enc, user.isascii(), realm.isascii(), pw.isascii()), w)
            if got != want:
                run.violation("C02|htdigest|encoding|digest-mismatch", f"htdigest.hash(.., encoding={enc!r}) = {got}, MD5 over the {enc} bytes is {want}", dict(w, passlib=got))
            if ok is not True or ok_b is not True or bad:
                run.violation("C02|htdigest|encoding|ref-hash-rejected", f"htdigest.verify(.., encoding={enc!r}) of the reference digest: text={ok} bytes={ok_b} wrong-password={bad}", w)


def first_call(run, name):
    """the very first digest of a fresh interpreter (no backend loaded yet) equals the reference as well"""
    rng = run.rng("first:" + name)
    h = H.get(name)
    st = {"salt": H.gen_salt(h, rng)}
    if "rounds" in h.setting_kwds:
        st["rounds"] = H.rounds_values(h, "quick")[0]
    pw = H.pw_bytes(rng, 12, "ascii").decode()
    try:
        want = ref_for(name, pw.encode(), norm_settings(name, st), {})
        got = H.apply(h, st).hash(pw)
    except F.NotCovered:
        return
    except Exception as e:
        run.violation(f"C02|{name}|first-call-in-process|raises|{type(e).__name__}", f"{name}: first hash of a fresh interpreter raised {type(e).__name__}: {str(e)[:100]}", dict(name=name, settings=st, password=pw))
        return
    run.count("first_call_cases")
    run.case((name, "first-call-in-process"), dict(format=name, settings=st, password=pw, hash=got))
    if got != want:
        run.violation(f"C02|{name}|first-call-in-process|digest-mismatch", f"{name}: the first hash a fresh interpreter makes differs from the reference ({got!r} vs {want!r})",
                      dict(name=name, settings=st, password=pw, passlib=got, reference=want))


def body(run):
    names = H.names()
    for n in H.ARGON:
        run.note(f"{n}: no argon2 backend installed on this host - not exercised")
    # shard by handler groups; the builtin backend gets its own processes (backend state is global)
    shards = []
    per = 5
    for i in range(0, len(names), per):
        shards.append(dict(names=names[i:i + per], backend="default"))
    bi = [n for n in names if getattr(H.get(n), "backends", None) and "builtin" in H.get(n).backends]
    for i in range(0, len(bi), 2):
        shards.append(dict(names=bi[i:i + 2], backend="builtin"))
    oc = [n for n in names if getattr(H.get(n), "backends", None) and "os_crypt" in H.get(n).backends]
    for i in range(0, len(oc), 3):
        shards.append(dict(names=oc[i:i + 3], backend="os_crypt"))
    run.parallel("checks.c02", "work", shards, timeout=1200 if run.tier == "quick" else 5400,
                 env={"PASSLIB_BUILTIN_BCRYPT": "1"})
    run.parallel("checks.c02", "first_call", [dict(name=n) for n in ("bcrypt_sha256", "django_bcrypt_sha256", "bcrypt", "ldap_bcrypt", "django_bcrypt", "sha256_crypt", "des_crypt", "scrypt")], timeout=600)
    run.require("first_call_cases", 6)
    htdigest_encodings(run)
    run.require("htdigest_encoding_cases", 15)
    django_cross(run)
    libpass_diff(run)
    sun_md5_bare(run)
    for n in names:
        if H.usable(n) and n not in H.DISABLED:
            run.require(f"cmp:{n}:default", 3)
    for n in bi:
        run.require(f"cmp:{n}:builtin", 3)
    for n in ("sha256_crypt", "sha512_crypt", "md5_crypt"):
        run.require(f"len>=96:{n}:builtin", 1)
    run.assumptions += ["references in vlib/refimpl are self-validated on published vectors and against OS crypt() at the start of every shard",
                        "trusted base: CPython hashlib/hmac (OpenSSL), libxcrypt via legacycrypt, bcrypt wheel, Django hashers"]


if __name__ == "__main__":
    main("C02", "exploration", RULE, body)
