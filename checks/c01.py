"""C01 - a hash verifies exactly the password it was made from.

API-boundary monitor: every shipped hasher (registry + libpass) is driven over generated (password, settings,
context) cases; the oracle is (1) the identify / verify-text / verify-bytes self-consistency triple, (2) for
near-miss passwords the documented-equivalence model of vlib/equiv.py (everything outside the model must be
False), (3) clean refusal (ValueError/TypeError family) of inputs outside a format's documented domain."""
import re

from passlib.utils.handlers import GenericHandler as _GenericHandler
from vlib import hashers as H
from vlib.equiv import equivalent, canon
from vlib.run import main

RULE = ("case = (hasher, settings, context, password) -> hash, identify, verify(text), verify(bytes) and ~15 near-miss "
        "verifies; distinct = distinct (hasher, password class, length, settings class) tuples with a non-empty password "
        "or the explicit empty-password class")


def admissible(bname, secret, ctx, text=None):
    """is this password inside the documented domain of the format? (None = do not judge)"""
    if b"\x00" in secret:
        return False
    if len(secret) > 4096:
        return False
    utf8 = H.is_utf8(secret)
    if bname in H.TRANSCODING and not utf8:
        return False
    if bname in ("cisco_pix",) and len(secret) > 16:
        return False
    if bname in ("cisco_asa",) and len(secret) > 32:
        return False
    if bname == "scram":
        if canon("scram", secret) is None:
            return False
    if bname == "lmhash":
        if canon("lmhash", secret, ctx) is None:
            return False
        try:
            secret.decode("utf-8").encode(ctx.get("encoding") or "cp437")
        except UnicodeError:
            return False
    if bname == "htdigest":
        try:
            secret.decode("utf-8").encode(ctx.get("encoding") or "utf-8")
        except UnicodeError:
            return False
    if bname == "ldap_plaintext" and (not secret or re.match(rb"^\{\w+\}", secret)):
        return False
    if bname in ("plaintext", "roundup_plaintext", "ldap_plaintext") and not utf8:
        return False
    return True


def near_misses(rng, s, limit):
    """edits of the byte string s (never introducing NUL)"""
    out = []
    n = len(s)
    pos = list(range(n)) if n <= 6 else sorted(set([0, 1, n // 2, n - 2, n - 1] + [rng.randrange(n) for _ in range(3)]
                                                    + [p for p in (7, 8, 13, 14, 15, 16, 31, 32, 55, 56, 63, 64, 71, 72, 95, 96) if p < n]))
    for i in pos:
        c = s[i]
        for nc in {(c ^ 1) or 3, (c ^ 0x80) or 0x81, (c ^ 0x20) or 0x21, rng.randrange(1, 256)}:
            if nc != c and nc != 0:
                out.append(("subst", s[:i] + bytes([nc]) + s[i + 1:]))
        out.append(("delete", s[:i] + s[i + 1:]))
    for k in sorted({0, 1, n // 2, n - 1}):
        if 0 <= k < n:
            out.append(("prefix", s[:k]))
    out += [("extend", s + b"x"), ("extend", s + b" "), ("extend", s + s[-1:] if s else b"a"), ("prepend", b" " + s),
            ("blank", s[:n // 2] + b" " + s[n // 2:]), ("tab", s[:n // 2] + b"\t" + s[n // 2:]),
            ("ctrl", s[:n // 2] + bytes([rng.choice(b"\n\r\x0b\x0c\x01\x1f\x7f")]) + s[n // 2:]),
            ("ctrl", s + bytes([rng.choice(b"\n\r\x0b\x0c")])), ("strip-ws", bytes(c for c in s if c not in b" \t\n\r\x0b\x0c")),
            ("swapcase", s.swapcase()), ("upper", s.upper()), ("double", s + s)]
    seen, uniq = {s}, []
    for kind, m in out:
        if m not in seen and b"\x00" not in m:
            seen.add(m)
            uniq.append((kind, m))
    rng.shuffle(uniq)
    # keep a stratified subset: one of each kind first
    kinds, first, rest = set(), [], []
    for kind, m in uniq:
        (first if kind not in kinds else rest).append((kind, m))
        kinds.add(kind)
    return (first + rest)[:limit]


def password_classes(rng, h, bname, tier):
    """(label, value) with value str or bytes"""
    t = getattr(h, "truncate_size", None)
    out = [("empty", b""), ("1byte", H.pw_bytes(rng, 1)), ("ascii8", H.pw_bytes(rng, 8)),
           ("ascii-mid", H.pw_bytes(rng, rng.choice([5, 9, 13, 17, 27, 28]))),
           ("text-2byte", H.pw_text(rng, rng.choice([3, 7, 9]), (2,))), ("text-mixed", H.pw_text(rng, rng.choice([4, 8, 16]), (1, 2, 3, 4))),
           ("text-ascii", H.pw_bytes(rng, rng.choice([6, 10, 20])).decode()),
           ("non-utf8", H.pw_bytes(rng, rng.choice([3, 9, 17]), "high")),
           ("letters", bytes(rng.choice(b"abcdefXYZ") for _ in range(rng.choice([4, 7, 12]))).decode()),
           ("ws", H.pw_bytes(rng, rng.choice([5, 9, 14]), "ws")), ("text-latin1", H.pw_latin1_text(rng, rng.choice([3, 6, 10])))]
    if t:
        for d in (-1, 0, 1):
            out.append((f"trunc{d:+d}", H.pw_bytes(rng, t + d)))
        out.append(("trunc-mb", H.pw_text(rng, t, (2, 3))))
    lens = [55, 56, 63, 64, 65, 72, 73, 127, 128, 129, 255] if tier == "thorough" else [rng.choice([63, 64, 65]), rng.choice([72, 73, 129])]
    for ln in lens:
        out.append((f"len{ln}", H.pw_bytes(rng, ln, rng.choice(["ascii", "binary"]))))
    out.append(("long", H.pw_bytes(rng, rng.choice([1000, 4095, 4096]))))
    # data that looks like the format's own syntax: the prefix / identifier of the hash inside the password, and a password that IS a hash string
    marks = [m for m in (getattr(h, "prefix", None), getattr(h, "orig_prefix", None), getattr(h, "ident", None), getattr(getattr(h, "wrapped", None), "ident", None)) if isinstance(m, str) and m]
    for m in marks[:2]:
        out.append(("contains-own-prefix", "abc" + m + "def" + m))
    out.append(("looks-like-a-hash", "$1$abcdefgh$G//4keteveJp0qb8z2DxG/"))
    if t and t >= 16:
        # multi-byte characters placed across the truncation limit in every alignment
        out.append(("straddle-2", "a" * (t - 1) + "\u00e9" * 20))
        out.append(("straddle-3", "a" * (t - 2) + "\u20ac" * 20))
        out.append(("straddle-4", "a" * (t - 1) + "\U0001f600" * 10))
    return out


def work(run, names, backend=None):
    rng = run.rng(",".join(names) + (backend or ""))
    for name in names:
        h = H.get(name)
        bname = H.base_name(h)
        if backend:
            # the same under another selectable backend (the OS crypt() cuts and scans passwords itself)
            try:
                if backend not in getattr(h, "backends", ()) or not h.has_backend(backend):
                    continue
                h.set_backend(backend)
                run.count(f"under_backend:{backend}")
            except Exception:
                continue
        if name in H.DISABLED:
            disabled(run, h, rng)
            continue
        if not H.usable(name):
            run.note(f"{name}: no backend on this host")
            continue
        slist = H.settings_list(h, rng, run.tier, n_random=2)
        if run.tier == "quick":
            rng.shuffle(slist)
            slist = slist[:7]
        if len(slist) < 3:
            slist = slist * 3
        if run.tier == "thorough":
            slist.append("DEFAULT")
        for si, st in enumerate(slist):
            default_cost = False
            if st == "DEFAULT":
                hh, st = h, {}
                default_cost = True      # the (expensive) default cost path, once per hasher: few verifies
                pcs = password_classes(rng, h, bname, "quick")[1:3]
            else:
                try:
                    hh = H.apply(h, st)
                except Exception:
                    run.count("using_refused")
                    continue
                pcs = password_classes(rng, h, bname, run.tier)
                if run.tier == "quick":
                    pcs = pcs[si % 3::3] + pcs[:1]
            ident = st.get("ident")
            for label, pw in pcs:
                ctx = H.ctx_for(h, rng)
                if label == "text-latin1" and "encoding" in getattr(h, "context_kwds", ()) and bname != "lmhash":
                    ctx["encoding"] = "latin-1"
                    if "user" in ctx:
                        ctx["user"], ctx["realm"] = "üser", "réalm"
                secret = pw.encode("utf-8") if isinstance(pw, str) else pw
                adm = admissible(bname, secret, ctx)
                if backend == "os_crypt" and "bcrypt" in bname and not H.is_utf8(secret):
                    adm = False       # bcrypt's os_crypt backend takes UTF-8 only (recorded finding of C03); outside this backend's domain
                # one case in five goes through the older spelling hash(secret, **settings, **context) (deprecated but supported;
                # hashers without settings get relaxed=True, which every hasher accepts)
                legacy_call = (not default_cost and isinstance(h, type) and issubclass(h, _GenericHandler) and (si + len(label)) % 5 == 0
                               and bname not in H.DISABLED and not (set(st) & set(getattr(h, "context_kwds", ()))))
                try:
                    if legacy_call:
                        hs = h.hash(pw, **(st or {"relaxed": True}), **ctx)
                        run.count("legacy_hash_calls")
                        if ctx:
                            run.count("legacy_hash_calls_with_context_kwds")
                    else:
                        hs = hh.hash(pw, **ctx)
                except (ValueError, TypeError) as e:
                    if adm:
                        run.violation(f"C01|{name}|hash-refuses-admissible|{type(e).__name__}|{label.split('+')[0].split('-')[0]}",
                                      f"{name}: hash() refused an admissible password ({label}): {type(e).__name__}: {str(e)[:100]}",
                                      dict(name=name, settings=st, password=pw, ctx=ctx),
                                      repro=f"import passlib.hash as H\nprint(H.{name}.using(**{st!r}).hash({pw!r}, **{ctx!r}))")
                    else:
                        run.count("clean_refusal")
                        run.case((name, "refusal", label), None)
                    continue
                except Exception as e:
                    run.violation(f"C01|{name}|hash-internal-error|{type(e).__name__}",
                                  f"{name}: hash() raised {type(e).__name__}: {str(e)[:100]} ({label})",
                                  dict(name=name, settings=st, password=pw, ctx=ctx))
                    continue
                if not adm:
                    # outside the documented domain but hashed anyway: nothing is required of the result
                    run.count(f"hashes-outside-domain:{bname}")
                    continue
                w = dict(name=name, settings=st, password=pw, ctx=ctx, hash=hs)
                rp = (f"import warnings; warnings.simplefilter('ignore')\nimport passlib.hash as H\nh=H.{name}\nhs={hs!r}\n"
                      f"print('identify', h.identify(hs)); print('verify', h.verify({pw!r}, hs, **{ctx!r}))")
                if not isinstance(hs, str) or (bname not in H.PLAIN and not hs.isascii()):
                    run.violation(f"C01|{name}|hash-not-ascii-str", f"{name}: hash() returned {type(hs).__name__} / non-ASCII", w)
                    continue
                try:
                    ok_id = h.identify(hs)
                    ok_text = h.verify(pw, hs, **ctx)
                    if isinstance(pw, str):
                        alt = pw.encode("utf-8")
                        if bname == "lmhash":
                            alt = pw.upper().encode(ctx.get("encoding") or "cp437")
                        elif bname in ("htdigest",) + H.PLAIN and ctx.get("encoding"):
                            alt = pw.encode(ctx["encoding"])
                    else:
                        alt = pw.decode("utf-8") if H.is_utf8(pw) else None
                    ok_alt = h.verify(alt, hs, **ctx) if alt is not None else True
                except Exception as e:
                    run.violation(f"C01|{name}|verify-own-hash-raises|{type(e).__name__}",
                                  f"{name}: identify/verify of its own fresh hash raised {type(e).__name__}: {str(e)[:100]}", w, rp)
                    continue
                if ok_id is not True:
                    run.violation(f"C01|{name}|own-hash-not-identified", f"{name}: identify() is {ok_id!r} for its own fresh hash ({label})", w, rp)
                if ok_text is not True:
                    run.violation(f"C01|{name}|own-hash-not-verified", f"{name}: verify() is {ok_text!r} for the password the hash was made from ({label})", w, rp)
                if ok_alt is not True:
                    run.violation(f"C01|{name}|text-bytes-disagree", f"{name}: verify() of the equivalent {'bytes' if isinstance(pw, str) else 'text'} form is {ok_alt!r} ({label})", w, rp)
                run.case((name, label, len(secret), ",".join(f"{k}={v if k != 'salt' else len(v) if hasattr(v, '__len__') else v}" for k, v in sorted(st.items()))), w if len(secret) > 3 else None)
                run.count(f"triple:{name}")
                # near misses
                if not adm:
                    continue
                lim = 3 if default_cost else 14 if run.tier == "quick" else 40
                for kind, m in near_misses(rng, secret, lim):
                    eq = equivalent(bname, secret, m, ctx, ident if ident else getattr(hh, "default_ident", None))
                    if bname in ("bcrypt",) and (ident in ("2", "$2$")):
                        eq = equivalent("bcrypt", secret, m, ctx, "$2$")
                    if eq is None or not admissible(bname, m, ctx):
                        # the near miss is outside the format's domain: the statement requires nothing of it
                        run.count("near_miss_outside_domain")
                        continue
                    expect = eq
                    probe = m
                    if isinstance(pw, str) and H.is_utf8(m) and rng.random() < 0.5:
                        probe = m.decode("utf-8")
                    if bname == "lmhash" and not m.isascii():
                        # lmhash takes bytes as already encoded in its code page (and folds case on text only): judge text
                        if not H.is_utf8(m):
                            continue
                        probe = m.decode("utf-8")
                    try:
                        got = h.verify(probe, hs, **ctx)
                    except (ValueError, TypeError):
                        run.count("near_miss_refused")
                        if expect and not (backend == "os_crypt" and "bcrypt" in bname and not H.is_utf8(m)):
                            run.violation(f"C01|{name}|equivalent-password-refused|{kind}", f"{name}: documented-equivalent password refused", dict(w, near_miss=m, kind=kind))
                        continue
                    except Exception as e:
                        run.violation(f"C01|{name}|verify-internal-error|{type(e).__name__}", f"{name}: verify() raised {type(e).__name__}: {str(e)[:80]}", dict(w, near_miss=m))
                        continue
                    run.trivial()
                    run.count("near_miss_verifies")
                    run.count(f"near:{kind}")
                    if got is not expect:
                        mech = f"C01|{name}|near-miss-accepted|{kind}" if got else f"C01|{name}|equivalent-rejected|{kind}"
                        run.violation(mech, f"{name}: verify() is {got!r} for a {kind} near miss, documented equivalence says {expect!r} ({label}, {len(secret)} bytes)",
                                      dict(w, near_miss=m, kind=kind, expected=expect),
                                      repro=f"import warnings; warnings.simplefilter('ignore')\nimport passlib.hash as H\nprint(H.{name}.verify({probe!r}, {hs!r}, **{ctx!r}), 'expected', {expect!r})")
                    if expect:
                        run.count("equivalent_confirmed")


def disabled(run, h, rng):
    name = h.name
    for i in range(20 if run.tier == "quick" else 200):
        pw = rng.choice([b"", "", H.pw_bytes(rng, 8), H.pw_text(rng, 5), "!", "*", "x"])
        try:
            hs = h.hash(pw)
        except Exception as e:
            run.violation(f"C01|{name}|hash-internal-error|{type(e).__name__}", f"{name}: hash() raised {e}", dict(pw=pw))
            continue
        for probe in (pw, "", hs, hs.encode(), "x", b"!"):
            try:
                r = h.verify(probe, hs)
            except Exception as e:
                run.violation(f"C01|{name}|verify-raises|{type(e).__name__}", f"{name}: verify raised {e}", dict(hash=hs, probe=probe))
                continue
            if r is not False:
                run.violation(f"C01|{name}|disabled-verifies", f"{name}: disabled hasher verified {r!r}", dict(hash=hs, probe=probe))
        if not h.identify(hs):
            run.violation(f"C01|{name}|own-hash-not-identified", f"{name}: does not identify its own hash", dict(hash=hs))
        run.case((name, "disabled", i % 7), dict(name=name, hash=hs, password=pw))
        run.count(f"triple:{name}")


def libpass(run):
    rng = run.rng("libpass")
    for name, (cls, kw) in H.libpass_hashers().items():
        hh = cls(**kw)
        for i in range(12 if run.tier == "quick" else 80):
            ln = rng.choice([0, 1, 7, 8, 9, 16, 33, 55, 56, 64, 71, 72])
            pw = rng.choice([H.pw_bytes(rng, ln), H.pw_bytes(rng, ln, "binary"), H.pw_text(rng, max(1, ln // 4)), H.pw_bytes(rng, ln).decode()])
            secret = pw.encode() if isinstance(pw, str) else pw
            if name == "bcrypt" and len(secret) > 72:
                continue
            w = dict(hasher="libpass." + name, password=pw)
            try:
                skw = {}
                if i % 3 and name.endswith("_crypt"):
                    salt = "".join(rng.choice("./0123456789ABCxyz") for _ in range(rng.choice([1, 8, 14, 15, 16])))
                    skw = dict(salt=salt if i % 2 else salt.encode())
                elif i % 3 and name.startswith("pbkdf2"):
                    skw = dict(salt=H.pw_bytes(rng, rng.choice([1, 8, 16, 24]), "binary"))
                elif i % 3 and "bcrypt" in name:
                    import bcrypt as _b
                    skw = dict(salt=_b.gensalt(rounds=rng.choice([4, 5, 6]), prefix=b"2b"))   # a salt whose cost may differ from the hasher's
                w["salt"] = skw.get("salt")
                hs = hh.hash(pw, **skw)
                idf = hh.identify(hs)
                v1 = hh.verify(hs, pw)
                alt = pw.encode() if isinstance(pw, str) else (pw.decode() if H.is_utf8(pw) else pw)
                v2 = hh.verify(hs, alt)
            except Exception as e:
                run.violation(f"C01|libpass.{name}|raises|{type(e).__name__}", f"libpass {name}: {type(e).__name__}: {str(e)[:100]}", w)
                continue
            w["hash"] = hs
            if not (isinstance(hs, str) and hs.isascii()):
                run.violation(f"C01|libpass.{name}|hash-not-ascii-str", "not ascii str", w)
            if idf is not True:
                run.violation(f"C01|libpass.{name}|own-hash-not-identified", f"libpass {name}: identify() False for own hash", w)
            if v1 is not True or v2 is not True:
                run.violation(f"C01|libpass.{name}|own-hash-not-verified", f"libpass {name}: verify() {v1}/{v2} for own hash", w)
            for kind, m in near_misses(rng, secret, 10):
                if name == "bcrypt" and (len(m) > 72 or m[:72] == secret[:72]):
                    continue
                try:
                    got = hh.verify(hs, m)
                except ValueError:
                    continue
                run.trivial()
                if got is not False:
                    run.violation(f"C01|libpass.{name}|near-miss-accepted|{kind}", f"libpass {name}: near miss verifies", dict(w, near_miss=m))
            run.case(("libpass." + name, len(secret), i % 4), w)
            run.count(f"triple:libpass.{name}")


def body(run):
    names = H.names()
    for n in H.ARGON:
        run.note(f"{n}: no argon2 backend installed on this host - not exercised")
    shards = [dict(names=names[i::16]) for i in range(16)]
    oc = [n for n in names if "os_crypt" in getattr(H.get(n), "backends", ())]
    shards += [dict(names=oc[i::4], backend="os_crypt") for i in range(4)]
    run.parallel("checks.c01", "work", shards, timeout=1200 if run.tier == "quick" else 5400)
    run.require("under_backend:os_crypt", 4)
    libpass(run)
    for n in names:
        if H.usable(n):
            run.require(f"triple:{n}", 3)
    for n in H.libpass_hashers():
        run.require(f"triple:libpass.{n}", 3)
    run.require("near_miss_verifies", 1000)
    run.require("legacy_hash_calls", 50)
    run.require("legacy_hash_calls_with_context_kwds", 5)
    run.require("equivalent_confirmed", 20)
    if run.tier == "thorough":
        # the repository's own test-suite as one more workload, monitors on (vlib/ambient_plugin.py)
        from vlib.ambient import suite_under_monitor
        suite_under_monitor(run, min_events={"C01-verify": 5000})
    run.assumptions += ["documented equivalences are those of vlib/equiv.py (truncation limits in bytes, 7-bit DES keys, case folding of lmhash/mssql2000/oracle10, mysql323 blanks, SASLprep for scram, $2$ key cycling)",
                        "NUL bytes are not generated here (C05 covers them)"]


if __name__ == "__main__":
    main("C01", "exploration", RULE, body)
