"""C07 - hash strings parse and re-render without loss.

Round-trip monitor.  (A) strings the hashers produce from generator-known settings: from_string().to_string(),
genhash() and parsehash() must give back the string and the settings that were used, for str and ASCII-bytes input;
(B) well-formed strings rendered by the independent reference grammar (elided default rounds, zero-size salts,
config-only / bare-salt forms, hex-case and padding-bit variants) must be accepted and re-rendered to themselves or
to the documented canonical form, verifying the same passwords; (C) the libpass inspection helpers and PHC records."""
import re

from vlib import hashers as H
from vlib.refimpl import formats as F
from vlib.run import main
from checks.c02 import norm_settings, ref_for

RULE = ("case = one hash string (produced by a hasher from known settings, or rendered by the reference grammar in a "
        "particular spelling) pushed through parse -> render / genhash / parsehash / inspect; distinct = distinct (format, "
        "spelling class, cost, salt size, variant, str|bytes) tuples")

NUMFIELD = re.compile(r"(?<=[$=,:])(\d+)(?=[$,:]|$)")
ARABIC_DIGITS = {ord("0") + i: 0x0660 + i for i in range(10)}
LOWER_HEX = ("hex_md4", "hex_md5", "hex_sha1", "hex_sha256", "hex_sha512", "lmhash", "nthash", "msdcc", "msdcc2", "mysql323")
UPPER_HEX = ("mysql41", "oracle10", "oracle11", "mssql2000", "mssql2005", "grub_pbkdf2_sha512", "cisco_type7")


def attr_expect(name, st):
    """settings as the parsed object must report them"""
    n = norm_settings(name, st)
    out = {}
    for k in ("rounds", "salt", "ident", "variant", "block_size", "parallelism", "version"):
        if k in n:
            out[k] = n[k]
    if "algs" in st:
        out["algs"] = sorted(n["algs"])
    return out


def check_string(run, name, h, hs, pw, ctx, origin, st=None, canonical=None, verify=True):
    """parse -> render of one string; canonical = expected rendering (defaults to the string itself)"""
    bname = H.base_name(h)
    want = canonical if canonical is not None else hs
    w = dict(format=name, origin=origin, string=hs, settings=st, password=pw, ctx=ctx)
    rp = f"import warnings; warnings.simplefilter('ignore')\nimport passlib.hash as H\nh=H.{name}\ns={hs!r}\n"
    key = (name, origin, (st or {}).get("rounds"), len((st or {}).get("salt", "")) if isinstance((st or {}).get("salt", ""), (str, bytes)) else 0,
           ",".join(f"{k}={v}" for k, v in sorted((st or {}).items()) if k not in ("salt", "rounds")))
    for form, inp in (("str", hs), ("bytes", hs.encode("utf-8"))):
        if form == "bytes" and not hs.isascii() and bname not in H.PLAIN:
            continue
        try:
            if not h.identify(inp):
                run.violation(f"C07|{name}|not-identified|{origin}", f"{name}: well-formed {origin} string ({form}) is not identified", w, rp + "print(h.identify(s))")
                return
            if hasattr(h, "from_string") and not hasattr(h, "wrapped"):
                obj = h.from_string(inp)
                back = obj.to_string()
                if back != want:
                    run.violation(f"C07|{name}|from_string-to_string|{origin}", f"{name}: parse+render of a {origin} string ({form}) gives {back!r}, expected {want!r}", dict(w, rendered=back),
                                  rp + "print(h.from_string(s).to_string())")
                if st is not None:
                    for k, v in attr_expect(name, st).items():
                        got = getattr(obj, k, None)
                        if k == "algs":
                            got = sorted(got)
                        if k == "variant" and not isinstance(v, int):
                            continue
                        if got != v:
                            run.violation(f"C07|{name}|parsed-setting|{k}", f"{name}: parsed {k} is {got!r}, the hash was made with {v!r}", dict(w, key=k, got=got),
                                          rp + f"print(h.from_string(s).{k})")
                # parsehash: reports the same values, and is enough to rebuild the string
                if hasattr(h, "parsehash"):
                    ph = h.parsehash(inp)
                    for k, v in ph.items():
                        if k != "checksum" and getattr(obj, k, None) != v:
                            run.violation(f"C07|{name}|parsehash-disagrees|{k}", f"{name}: parsehash {k}={v!r} but parsed object has {getattr(obj, k, None)!r}", w)
                    if st is not None:
                        for k, v in attr_expect(name, st).items():
                            if k in ("variant",) and not isinstance(v, int):
                                continue
                            dflt = getattr(h, k, getattr(h, "default_" + k, None))
                            if k not in h.setting_kwds:
                                continue
                            if k not in ph:
                                # omitted settings are by definition equal to the hasher's default
                                if k in ("salt",) or dflt is None or (sorted(dflt) if k == "algs" else dflt) != v:
                                    if not (k == "ident" and dflt == v):
                                        run.violation(f"C07|{name}|parsehash-drops|{k}", f"{name}: parsehash() does not report {k}={v!r} (class default {dflt!r})", dict(w, parsehash=ph),
                                                      rp + "print(h.parsehash(s))")
                            else:
                                got = sorted(ph[k]) if k == "algs" else ph[k]
                                if got != v:
                                    run.violation(f"C07|{name}|parsehash-wrong|{k}", f"{name}: parsehash() reports {k}={got!r}, the hash was made with {v!r}", dict(w, parsehash=ph))
                    ph2 = h.parsehash(inp, checksum=False)
                    if "checksum" in ph2:
                        run.violation(f"C07|{name}|parsehash-checksum-flag", f"{name}: parsehash(checksum=False) still reports the checksum", w)
            if verify and pw is not None:
                g = h.genhash(pw, inp, **ctx)
                if g != want:
                    run.violation(f"C07|{name}|genhash-roundtrip|{origin}", f"{name}: genhash(password, hash) of a {origin} string ({form}) gives {g!r}, expected {want!r}", dict(w, genhash=g),
                                  rp + f"print(h.genhash({pw!r}, s, **{ctx!r}))")
                if h.verify(pw, inp, **ctx) is not True:
                    run.violation(f"C07|{name}|does-not-verify|{origin}", f"{name}: {origin} string does not verify its password", w, rp + f"print(h.verify({pw!r}, s, **{ctx!r}))")
                if want != hs and h.verify(pw, want, **ctx) is not True:
                    run.violation(f"C07|{name}|canonical-verifies-differently", f"{name}: canonical rendering does not verify the same password", w)
        except Exception as e:
            run.violation(f"C07|{name}|raises|{origin}|{type(e).__name__}", f"{name}: {origin} string ({form}): {type(e).__name__}: {str(e)[:120]}", w, rp + "print(h.from_string(s).to_string())")
            return
    run.case(key, w)
    run.count(f"rt:{name}")
    run.count(f"origin:{origin}")


def other_pw(pw):
    return (pw[:-1] + ("Z" if pw[-1:] != "Z" else "Y")) if pw else "Z"


def produced(run, names):
    rng = run.rng(",".join(names))
    for name in names:
        h = H.get(name)
        if not H.usable(name) or name in H.DISABLED:
            continue
        bname = H.base_name(h)
        slist = H.settings_list(h, rng, run.tier, n_random=3)
        if run.tier == "quick" and len(slist) > 14:
            rng.shuffle(slist)
            keep = [s_ for s_ in slist if s_.get("rounds") == 5000][:2]
            slist = keep + slist[:14 - len(keep)]
        if len(slist) < 4:
            slist = slist * 4
        for st in slist:
            try:
                hh = H.apply(h, st)
            except Exception:
                continue
            ctx = H.ctx_for(h, rng)
            pw = H.pw_bytes(rng, rng.choice([1, 6, 8, 12]), "ascii").decode()
            if bname in ("cisco_pix", "cisco_asa"):
                pw = pw[:12]
            try:
                hs = hh.hash(pw, **ctx)
            except ValueError:
                continue
            check_string(run, name, h, hs, pw, ctx, "produced", st)
            if name in H.PLAIN:
                # these "hashes" carry the password text itself, which need not be ASCII (also when read back as UTF-8 bytes)
                for extra in ("p\u00e4ssw\u00f6rd", "\u5bc6\u7801 x"):
                    check_string(run, name, h, hh.hash(extra, **ctx), extra, ctx, "produced-non-ascii", None)
            # (B) the same settings rendered by the independent reference grammar
            try:
                ref = ref_for(name, pw.encode(), norm_settings(name, st), ctx)
            except (F.NotCovered, ValueError, UnicodeError):
                ref = None
            if ref is not None:
                if ref != hs:
                    # the independent grammar renders these settings differently: the reference string is what other
                    # implementations write, it must parse and come back unchanged
                    run.count("produced_differs_from_reference_rendering")
                    check_string(run, name, h, ref, pw, ctx, "reference-rendering", st)
                grammar_variants(run, name, h, bname, ref, pw, ctx, st, rng)


def grammar_variants(run, name, h, bname, ref, pw, ctx, st, rng):
    if ref != "" and bname not in H.PLAIN:
        # hex case: documented normalisation
        if name in LOWER_HEX and ref.lower() != ref.upper():
            up = ref.upper() if name not in ("postgres_md5", "bsd_nthash", "ldap_hex_md5", "ldap_hex_sha1", "django_salted_md5", "django_salted_sha1") else None
            if name == "postgres_md5":
                up = "md5" + ref[3:].upper()
            if name == "bsd_nthash":
                up = "$3$$" + ref[4:].upper()
            if name in ("ldap_hex_md5", "ldap_hex_sha1"):
                up = ref[:ref.index("}") + 1] + ref[ref.index("}") + 1:].upper()
            if up is not None:
                check_string(run, name, h, up, pw, ctx, "hex-uppercase", None, canonical=ref)
        if name in UPPER_HEX:
            low = None
            if name == "mysql41":
                low = "*" + ref[1:].lower()
            elif name == "oracle10":
                low = ref.lower()
            elif name in ("mssql2000", "mssql2005"):
                low = "0x0100" + ref[6:].lower()
            elif name == "grub_pbkdf2_sha512":
                pre, r, s, c = ref.rsplit(".", 3)
                low = ".".join([pre, r, s.lower(), c.lower()])
            elif name == "cisco_type7":
                low = ref.lower()
            if low is not None and low != ref:
                check_string(run, name, h, low, pw, ctx, "hex-lowercase", None, canonical=ref)
    # spellings of the sha-crypt rounds field
    if bname in ("sha256_crypt", "sha512_crypt") and st.get("rounds") == 5000:
        pre = "{CRYPT}" if name.startswith("ldap_") else ""
        body = ref[len(pre):]
        ident = body[:3]
        if "rounds=" in body:
            implicit = pre + ident + body.split("$", 3)[3]
            explicit = ref
        else:
            implicit = ref
            explicit = pre + ident + "rounds=5000$" + body[3:]
        check_string(run, name, h, implicit, pw, ctx, "implicit-rounds", None)
        check_string(run, name, h, explicit, pw, ctx, "explicit-5000-rounds", None)
    # config-only forms of the modular-crypt formats: the string without its checksum
    if bname in ("md5_crypt", "apr_md5_crypt", "sha256_crypt", "sha512_crypt", "sha1_crypt", "bcrypt", "phpass", "bsdi_crypt", "des_crypt",
                 "pbkdf2_sha1", "pbkdf2_sha256", "pbkdf2_sha512", "sun_md5_crypt", "scrypt") and not hasattr(h, "wrapped"):
        if bname == "bcrypt":
            cfgs = [ref[:-31]]
        elif bname == "phpass":
            cfgs = [ref[:12]]
        elif bname == "bsdi_crypt":
            cfgs = [ref[:9]]
        elif bname == "des_crypt":
            cfgs = [ref[:2]]
        elif bname == "sun_md5_crypt":
            head = ref.rsplit("$", 1)[0]
            cfgs = [head]   # NB "$md5$salt" and "$md5$salt$" are different configurations (bare-salt flag), not spellings
        else:
            head = ref.rsplit("$", 1)[0]
            cfgs = [head]
        for cfg in cfgs:
            try:
                obj = h.from_string(cfg)
            except ValueError as e:
                # these formats document (and on the pinned tree accept) their checksum-less configuration strings
                run.violation(f"C07|{name}|config-form-rejected", f"{name}: the config-only string {cfg!r} (hash without its checksum) is rejected: {str(e)[:80]}",
                              dict(format=name, origin="config-only", string=cfg, full_hash=ref),
                              repro=f"import passlib.hash as H\nprint(H.{name}.from_string({cfg!r}).to_string())")
                continue
            try:
                back = obj.to_string()
            except Exception as e:
                run.violation(f"C07|{name}|config-form-render-raises|{type(e).__name__}",
                              f"{name}: from_string() accepts the config-only string {cfg!r} but rendering it raises {type(e).__name__}: {str(e)[:80]}",
                              dict(format=name, origin="config-only", string=cfg),
                              repro=f"import passlib.hash as H\nprint(H.{name}.from_string({cfg!r}).to_string())")
                run.case((name, "config-only", st.get("rounds"), "raises"), None)
                run.count("origin:config-only")
                continue
            w = dict(format=name, origin="config-only", string=cfg, rendered=back, full_hash=ref)
            if getattr(obj, "checksum", None):
                run.violation(f"C07|{name}|config-form-misparsed", f"{name}: config-only string {cfg!r} parsed with a checksum {obj.checksum!r}", w)
            elif back.rstrip("$") != cfg.rstrip("$"):
                run.violation(f"C07|{name}|config-form-roundtrip", f"{name}: config-only string {cfg!r} re-renders as {back!r}", w)
            else:
                for k, v in attr_expect(name, st).items():
                    if k in ("variant",):
                        continue
                    got = getattr(obj, k, None)
                    got = sorted(got) if k == "algs" else got
                    if got != v:
                        run.violation(f"C07|{name}|config-form-setting|{k}", f"{name}: config-only string {cfg!r}: parsed {k}={got!r}, expected {v!r}", w)
                try:
                    full = h.genhash(pw, cfg, **ctx)
                    if full != ref:
                        run.violation(f"C07|{name}|config-form-genhash", f"{name}: genhash(password, {cfg!r}) gives {full!r}, the reference hash is {ref!r}", w)
                except Exception as e:
                    run.violation(f"C07|{name}|config-form-genhash|{type(e).__name__}", f"{name}: genhash with config-only string raised {e}", w)
            run.case((name, "config-only", st.get("rounds"), cfg.endswith("$")), w)
            run.count("origin:config-only")
    # sun_md5_crypt: the bare-salt spelling ("$md5[,rounds=N]$salt" without the trailing "$") is a different configuration that
    # can only be entered as a string; reference = OS crypt() on that configuration string
    if bname == "sun_md5_crypt" and st.get("salt"):
        r = st.get("rounds", 0)
        bare_cfg = ("$md5,rounds=%d$%s" % (r, st["salt"])) if r else "$md5$" + st["salt"]
        try:
            bare_ref = F.os_crypt(pw.encode(), bare_cfg)
        except F.NotCovered:
            bare_ref = None
        if bare_ref and bare_ref.startswith(bare_cfg + "$") and not bare_ref.startswith(bare_cfg + "$$"):
            check_string(run, name, h, bare_ref, pw, ctx, "bare-salt", None)
            try:
                obj = h.from_string(bare_cfg)
                back, full = obj.to_string(), h.genhash(pw, bare_cfg)
                if back != bare_cfg or full != bare_ref or obj.salt != st["salt"] or obj.rounds != r:
                    run.violation(f"C07|{name}|bare-salt-config", f"{name}: bare-salt config {bare_cfg!r}: re-rendered {back!r}, salt {obj.salt!r}, rounds {obj.rounds}, genhash {full!r} (OS crypt: {bare_ref!r})",
                                  dict(format=name, string=bare_cfg, reference=bare_ref))
            except Exception as e:
                run.violation(f"C07|{name}|bare-salt-config|{type(e).__name__}", f"{name}: bare-salt config {bare_cfg!r} (accepted by OS crypt) raises {type(e).__name__}: {str(e)[:80]}",
                              dict(format=name, string=bare_cfg, reference=bare_ref), repro=f"import passlib.hash as H\nprint(H.{name}.from_string({bare_cfg!r}).to_string())")
            run.case((name, "bare-salt-config", r > 0), dict(format=name, string=bare_cfg, reference=bare_ref))
            run.count("origin:bare-salt")
    # scram: the alg=digest pairs of a stored hash may come in any order; the canonical rendering is sorted
    if bname == "scram" and not hasattr(h, "wrapped") and ref.count("$") == 4:
        head, pairs = ref.rsplit("$", 1)
        items = pairs.split(",")
        if len(items) > 1:
            for perm in (items[::-1], items[1:] + items[:1]):
                if perm != items:
                    check_string(run, name, h, head + "$" + ",".join(perm), pw, ctx, "unsorted-digest-list", None, canonical=ref)
                    run.count("origin:unsorted-digest-list")
    # decimal fields in a spelling int() would take but the grammar does not have (sign, digit separator, blanks, non-ASCII digits,
    # a leading zero): recorded as observations (which formats refuse, keep or normalise them) - not judged, see below
    if hasattr(h, "from_string") and not hasattr(h, "wrapped") and bname not in H.PLAIN and ref:
        for m in list(NUMFIELD.finditer(ref))[:3]:
            num = m.group(1)
            decos = [("sign", "+" + num), ("blank-before", " " + num), ("blank-after", num + " "), ("non-ascii-digits", num.translate(ARABIC_DIGITS)),
                     ("leading-zero", "0" + num), ("underscore", num[:-3] + "_" + num[-3:] if len(num) > 3 else num[0] + "_" + num[1:] if len(num) > 1 else num + "_")]
            for kind, d in decos:
                s2 = ref[:m.start(1)] + d + ref[m.end(1):]
                run.count("decorated_number_probes")
                try:
                    back = h.from_string(s2).to_string()
                except (ValueError, TypeError):
                    run.count("decorated_number_refused")
                    continue
                run.case((name, "decorated-number", kind), None)
                if back != s2:
                    # observation only: such a string is not well-formed, so the property does not speak about it (the unchanged tree
                    # reads these fields with int() in the pbkdf2 family and normalises them); C08 judges that nothing raises
                    run.count("decorated_number_accepted_and_normalised")
                    run.distinct.add(f"decorated-number|{name}|{kind}|normalised")
                else:
                    run.count("decorated_number_kept_verbatim")
    # bcrypt: unused padding bits of the last salt character are repaired
    if bname == "bcrypt" and not hasattr(h, "wrapped") and ref[:4] in ("$2a$", "$2b$", "$2y$"):
        salt = ref[7:29]
        i = F.BCRYPT64.index(salt[21])
        noisy = F.BCRYPT64[i | rng.randrange(1, 16)]
        if noisy != salt[21]:
            bad = ref[:28] + noisy + ref[29:]
            check_string(run, name, h, bad, pw, ctx, "padding-bits-set", None, canonical=ref)
        # ... and so are the two unused bits of the last digest character (23 bytes in 31 characters)
        j = F.BCRYPT64.index(ref[-1])
        if j & 3 == 0:
            bad = ref[:-1] + F.BCRYPT64[j | rng.randrange(1, 4)]
            check_string(run, name, h, bad, pw, ctx, "digest-padding-bits-set", None, canonical=ref)
            run.count("origin:digest-padding-bits-set")


def class_switches(run):
    """documented class-level switches set by an application subclass: the subclass still parses what it renders"""
    import passlib.hash as PH
    rng = run.rng("switches")

    class no_dup(PH.django_des_crypt):
        use_duplicate_salt = False
    for cls, label in ((no_dup, "django_des_crypt.use_duplicate_salt=False"),):
        for _ in range(6):
            pw = H.pw_bytes(rng, rng.choice([1, 5, 8]), "ascii").decode()
            w = dict(hasher=label, password=pw)
            try:
                hs = cls.hash(pw)
                ok = cls.identify(hs) and cls.verify(pw, hs) and not cls.verify(pw + "x" if len(pw) < 8 else "y" + pw[1:], hs)
                back = cls.from_string(hs).to_string()
                plain_ok = PH.django_des_crypt.verify(pw, hs)
            except Exception as e:
                run.violation(f"C07|django_des_crypt|class-switch|{type(e).__name__}", f"{label}: the subclass cannot parse / verify the hash it renders: {type(e).__name__}: {str(e)[:80]}", w)
                continue
            run.count("class_switch_cases")
            run.case(("class-switch", label), dict(w, hash=hs))
            if not ok or back != hs or not plain_ok:
                run.violation("C07|django_des_crypt|class-switch|round-trip", f"{label}: hash {hs!r}: verifies={ok} re-rendered={back!r} stock class verifies={plain_ok}", dict(w, hash=hs))


def libpass_inspect(run):
    from libpass.inspect.sha_crypt import SHA256CryptInfo, SHA512CryptInfo, inspect_sha_crypt
    from libpass.inspect.pbkdf2 import PBKDF2SHA256CryptInfo, PBKDF2SHA512CryptInfo, inspect_pbkdf2_hash
    from libpass.inspect.bcrypt import inspect_bcrypt_hash
    from libpass.inspect.phc import inspect_phc, phc_b64_decode, phc_b64_encode
    from libpass.inspect.phc.defs import Argon2PHC, BcryptSHA256PHCV2
    rng = run.rng("libpass")
    n = 60 if run.tier == "quick" else 600

    def viol(mech, what, w):
        run.violation(f"C07|libpass.inspect|{mech}", what, w)
    for i in range(n):
        # sha-crypt
        for hname, cls, other in (("sha256", SHA256CryptInfo, SHA512CryptInfo), ("sha512", SHA512CryptInfo, SHA256CryptInfo)):
            salt = "".join(rng.choice(F.H64) for _ in range(rng.choice([1, 2, 8, 15, 16])))
            rounds = rng.choice([1000, 1001, 5000, 5000, 4999, 99999, 999999999])
            implicit = rounds == 5000 and rng.random() < 0.6
            chk = "".join(rng.choice(F.H64) for _ in range(43 if hname == "sha256" else 86))
            ident = "$5$" if hname == "sha256" else "$6$"
            s = f"{ident}{salt}${chk}" if implicit else f"{ident}rounds={rounds}${salt}${chk}"
            info = inspect_sha_crypt(s, cls)
            w = dict(helper="inspect_sha_crypt", string=s)
            if info is None:
                viol("sha_crypt|not-parsed", f"inspect_sha_crypt does not parse {s!r}", w)
                continue
            if (info.rounds, info.salt, info.hash) != (None if implicit else rounds, salt, chk):
                viol("sha_crypt|fields", f"inspect_sha_crypt fields {(info.rounds, info.salt, info.hash)!r} for {s!r}", w)
            if info.as_str() != s:
                viol("sha_crypt|as_str|" + ("implicit-rounds" if implicit else "explicit"), f"inspect_sha_crypt({s!r}).as_str() == {info.as_str()!r}", w)
            if inspect_sha_crypt(s, other) is not None:
                viol("sha_crypt|cross-identified", f"{other.__name__} accepts {s!r}", w)
            run.case(("inspect_sha_crypt", hname, implicit, len(salt)), w)
        # pbkdf2
        for dn, cls in (("pbkdf2-sha256", PBKDF2SHA256CryptInfo), ("pbkdf2-sha512", PBKDF2SHA512CryptInfo)):
            salt = F.ab64(H.pw_bytes(rng, rng.choice([1, 8, 16, 32]), "binary"))
            chk = F.ab64(H.pw_bytes(rng, 32 if dn.endswith("256") else 64, "binary"))
            rounds = rng.choice([1, 29000, 600000, 4294967295])
            s = f"${dn}${rounds}${salt}${chk}"
            info = inspect_pbkdf2_hash(s, cls)
            w = dict(helper="inspect_pbkdf2_hash", string=s)
            if info is None or (info.rounds, info.salt, info.hash) != (rounds, salt, chk) or info.as_str() != s:
                viol("pbkdf2|roundtrip", f"inspect_pbkdf2_hash({s!r}) -> {info!r}", w)
            othercls = PBKDF2SHA512CryptInfo if cls is PBKDF2SHA256CryptInfo else PBKDF2SHA256CryptInfo
            if inspect_pbkdf2_hash(s, othercls) is not None:
                viol("pbkdf2|cross-identified", f"{othercls.__name__} accepts {s!r}", w)
            run.case(("inspect_pbkdf2", dn, len(salt)), w)
        # bcrypt
        pref = rng.choice(["2a", "2b", "2y"])
        rounds = rng.choice([4, 5, 9, 10, 12, 31])
        salt = "".join(rng.choice(F.BCRYPT64) for _ in range(22))
        chk = "".join(rng.choice(F.BCRYPT64) for _ in range(31))
        s = f"${pref}${rounds:02d}${salt}{chk}"
        info = inspect_bcrypt_hash(s)
        w = dict(helper="inspect_bcrypt_hash", string=s)
        if info is None or (info.prefix, info.rounds, info.salt, info.hash) != (pref, rounds, salt, chk) or info.as_str() != s \
                or info.bcrypt_salt != s[:29].encode():
            viol("bcrypt|roundtrip", f"inspect_bcrypt_hash({s!r}) -> {info!r}", w)
        run.case(("inspect_bcrypt", pref, rounds), w)
        # PHC: bcrypt-sha256
        s = f"$bcrypt-sha256$v=2,t={pref},r={rounds}${salt}${chk}"
        info = inspect_phc(s, BcryptSHA256PHCV2)
        w = dict(helper="inspect_phc", string=s)
        if info is None or (info.version_, info.type, info.rounds, info.salt, info.hash) != (2, pref, rounds, salt, chk) or info.as_str() != s:
            viol("phc|bcrypt-sha256-roundtrip", f"inspect_phc({s!r}) -> {info!r}", w)
        run.case(("inspect_phc", "bcrypt-sha256", pref, rounds), w)
        # PHC: argon2
        typ = rng.choice(["argon2id", "argon2i", "argon2d"])
        m, t, p = rng.choice([8, 65536, 1048576]), rng.randint(1, 12), rng.randint(1, 8)
        salt = F.b64s(H.pw_bytes(rng, rng.choice([8, 16, 32]), "binary"))
        chk = F.b64s(H.pw_bytes(rng, rng.choice([16, 32, 64]), "binary"))
        s = f"${typ}$v=19$m={m},t={t},p={p}${salt}${chk}"
        info = inspect_phc(s, Argon2PHC)
        w = dict(helper="inspect_phc", string=s)
        if info is None or (info.id, info.memory_cost, info.time_cost, info.parallelism_cost, info.salt, info.hash) != (typ, m, t, p, salt, chk) \
                or info.as_str() != s or info.type != typ[6:]:
            viol("phc|argon2-roundtrip", f"inspect_phc({s!r}) -> {info!r}", w)
        # a record may only be returned if rendering it gives the source string back
        for alt in (f"${typ}$m={m},t={t},p={p}${salt}${chk}", f"${typ}$v=16$m={m},t={t},p={p}${salt}${chk}"):
            info = inspect_phc(alt, Argon2PHC)
            if info is not None and info.as_str() != alt:
                viol("phc|lossy-record", f"inspect_phc({alt!r}) returns a record that renders as {info.as_str()!r}", dict(helper="inspect_phc", string=alt))
        info = inspect_phc(s, [BcryptSHA256PHCV2, Argon2PHC])
        if info is None or info.as_str() != s:
            viol("phc|definition-list", f"inspect_phc with a list of definitions fails for {s!r}", w)
        run.case(("inspect_phc", typ), w)
        for text in (H.pw_text(rng, rng.choice([1, 2, 3, 7, 16])), "ab>", "ab?", "ab~", "C\u20ac", "\xff\xfe\xfb", H.pw_bytes(rng, rng.choice([3, 6, 9]), "ascii").decode()):
            # (the texts include values whose encoding needs the 63rd and 64th alphabet symbol)
            try:
                back = phc_b64_decode(phc_b64_encode(text))
            except Exception as e:
                viol(f"phc|b64|raises|{type(e).__name__}", f"phc_b64_decode(phc_b64_encode({text!r})) raised {type(e).__name__}: {e}", dict(text=text))
                continue
            run.count("phc_b64_roundtrips")
            if back != text:
                viol("phc|b64", f"phc_b64 round trip fails for {text!r}", dict(text=text))
        run.count("libpass_inspect")


def body(run):
    names = H.names()
    for n in H.ARGON:
        run.note(f"{n}: no argon2 backend installed on this host - not exercised (libpass Argon2PHC records are, they need no backend)")
    run.parallel("checks.c07", "produced", [dict(names=names[i::16]) for i in range(16)], timeout=900 if run.tier == "quick" else 3600)
    libpass_inspect(run)
    class_switches(run)
    run.require("class_switch_cases", 3)
    run.require("decorated_number_probes", 500)
    for n in names:
        if H.usable(n) and n not in H.DISABLED:
            run.require(f"rt:{n}", 2)
    for o in ("produced", "implicit-rounds", "config-only", "hex-uppercase", "hex-lowercase", "padding-bits-set", "digest-padding-bits-set", "bare-salt", "unsorted-digest-list"):
        run.require(f"origin:{o}", 3)
    run.require("libpass_inspect", 50)
    run.require("phc_b64_roundtrips", 200)
    if run.tier == "thorough":
        # the repository's own test-suite as one more workload, monitors on (vlib/ambient_plugin.py)
        from vlib.ambient import suite_under_monitor
        suite_under_monitor(run, min_events={"C07-rerender": 5000})
    run.assumptions += ["documented canonical forms: hex case (lower for " + ", ".join(LOWER_HEX[:6]) + " ...; upper for " + ", ".join(UPPER_HEX) + "), bcrypt padding-bit repair",
                        "parsehash() may omit a setting only when it equals the hasher's default (as its documentation says)"]


if __name__ == "__main__":
    main("C07", "exploration", RULE, body)
