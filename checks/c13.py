"""C13 - one-time codes follow RFC 4226 / RFC 6238.

Differential monitor against an 8-line HOTP/TOTP reference over stdlib hmac: generated keys (1..64 bytes), the three
algorithms, digits 6..10, periods 1..3600, times 0..2^40 including period boundaries +-1, numbers / floats / naive and
zone-aware date-times; token shape (zero padded decimal of exactly `digits` characters), counter and validity interval;
key text forms (base32 / hex / raw, blanks, dashes, lower case, the library's own pretty_key() output) denote the same key."""
import base64
import datetime
import hmac
import struct

from vlib import hashers as H
from vlib.run import main

RULE = ("case = one generate() call (key, algorithm, digits, period, time in some representation) compared with the RFC reference, or "
        "one key-spelling equivalence; distinct = distinct (algorithm, digits, key length class, period class, time representation, "
        "boundary position) tuples")


def ref_hotp(key, counter, digits, alg):
    h = hmac.new(key, struct.pack(">Q", counter), alg).digest()
    o = h[-1] & 0x0F
    v = struct.unpack(">I", h[o:o + 4])[0] & 0x7FFFFFFF
    return str(v % 10 ** digits).zfill(digits)


def selftest():
    # RFC 4226 appendix D, RFC 6238 appendix B
    k = b"12345678901234567890"
    assert [ref_hotp(k, i, 6, "sha1") for i in range(4)] == ["755224", "287082", "359152", "969429"]
    assert ref_hotp(k, 59 // 30, 8, "sha1") == "94287082"
    assert ref_hotp(b"12345678901234567890123456789012", 1111111109 // 30, 8, "sha256") == "68084774"
    assert ref_hotp(b"1234567890123456789012345678901234567890123456789012345678901234", 20000000000 // 30, 8, "sha512") == "47863826"


def work(run, part, parts):
    from passlib.totp import TOTP
    import warnings
    warnings.simplefilter("ignore")
    import os
    import time as _time
    if os.environ.get("TZ") and hasattr(_time, "tzset"):
        _time.tzset()           # the shard runs under the process time zone given by the parent (naive date-times stay UTC by contract)
        run.count("shards_with_process_timezone:" + os.environ["TZ"])
    try:
        selftest()
    except AssertionError:
        run.set_inconclusive("HOTP reference failed the RFC vectors")
        return
    rng = run.rng(f"gen{part}")
    n = (400000 if run.tier == "quick" else 16000000) // parts
    tzs = [datetime.timezone.utc, datetime.timezone(datetime.timedelta(hours=5, minutes=30)), datetime.timezone(datetime.timedelta(hours=-8)),
           datetime.timezone(datetime.timedelta(minutes=1)), datetime.timezone(datetime.timedelta(hours=14))]
    for i in range(n):
        alg = ("sha1", "sha256", "sha512")[i % 3]
        bs = 128 if alg == "sha512" else 64
        klen = rng.choice([1, 2, 9, 10, 16, 20, 32, 63, 64, bs - 1, bs, bs + 1, bs + 7, 2 * bs, 200, rng.randint(1, 64)])      # (keys longer than the hash block are hashed first, RFC 2104)
        key = H.pw_bytes(rng, klen, "binary") if i % 4 else bytes([rng.randrange(256)]) * klen
        digits = rng.choice([6, 7, 8, 9, 10])
        period = rng.choice([1, 2, 7, 29, 30, 31, 60, 3600, rng.randint(1, 3600)])
        kind = rng.choice(["int", "int", "float", "naive", "aware", "boundary", "boundary-1", "big", "zero", "huge", "aware-far"])
        if kind == "big":
            t = rng.randrange(2 ** 31, 2 ** 40)
        elif kind == "zero":
            t = 0                                    # the epoch itself (as a number, a float, or a date-time) is a time like any other
        elif kind == "huge":
            t = rng.choice([2 ** 53, 2 ** 53 + 1, 2 ** 54 + period - 1, 2 ** 60 + 7, rng.randrange(2 ** 53, 2 ** 62)])   # beyond the exact range of floats
        elif kind.startswith("boundary"):
            t = rng.randrange(0, 2 ** 31 // period) * period + (-1 if kind.endswith("-1") else 0)
            t = max(t, 0)
        else:
            t = rng.randrange(0, 2 ** 31)
        arg = t
        if kind == "zero":
            arg = rng.choice([0, 0.0, 0.5, datetime.datetime(1970, 1, 1), datetime.datetime(1970, 1, 1, tzinfo=datetime.timezone.utc),
                              datetime.datetime(1970, 1, 1, 5, 30, tzinfo=datetime.timezone(datetime.timedelta(hours=5, minutes=30)))])
        if kind == "float":
            arg = t + rng.random() * 0.999
        elif kind == "naive":
            if t > 253402300000:
                t = t % 253402300000
            arg = datetime.datetime(1970, 1, 1) + datetime.timedelta(seconds=t, microseconds=rng.randrange(10 ** 6))
        elif kind == "aware":
            tz = rng.choice(tzs)
            arg = datetime.datetime.fromtimestamp(t, tz) + datetime.timedelta(microseconds=rng.randrange(10 ** 6))
        elif kind == "aware-far":
            # the last microsecond of a period, centuries ahead (sub-second parts never round up into the next period)
            t = rng.randrange(2 ** 34, 200000000000) // period * period + period - 1
            arg = datetime.datetime(1970, 1, 1, tzinfo=datetime.timezone.utc).astimezone(rng.choice(tzs)) + datetime.timedelta(seconds=t, microseconds=999999)
        w = dict(key=key, alg=alg, digits=digits, period=period, time=str(arg), time_kind=kind, epoch=t)
        rp = (f"import warnings; warnings.simplefilter('ignore')\nimport datetime\nfrom passlib.totp import TOTP\n"
              f"t=TOTP(key={key!r}, format='raw', alg={alg!r}, digits={digits}, period={period})\nprint(t.generate({arg!r}))")
        try:
            otp = TOTP(key=key, format="raw", alg=alg, digits=digits, period=period)
            tok = otp.generate(arg)
        except Exception as e:
            run.violation(f"C13|generate|raises|{type(e).__name__}", f"generate() raised {type(e).__name__}: {str(e)[:100]}", w, rp)
            continue
        counter = t // period
        want = ref_hotp(key, counter, digits, alg)
        krel = "below" if klen < bs else "at" if klen == bs else "above"
        run.case((alg, digits, krel if klen > 20 else "short", "p1" if period == 1 else "p30" if period == 30 else "other", kind),
                 dict(w, token=tok.token, counter=tok.counter))
        run.count("generate")
        run.count(f"kind:{kind}")
        if tok.token != want:
            run.violation(f"C13|generate|token-mismatch|{kind if kind in ('aware', 'naive', 'float') else 'number'}|key-{krel}-block",
                          f"generate({kind} time {arg}) = {tok.token}, RFC value for counter {counter} is {want} ({alg}, {digits} digits, period {period}, {klen}-byte key)",
                          dict(w, got=tok.token, want=want), rp)
        if not (isinstance(tok.token, str) and len(tok.token) == digits and tok.token.isdigit() and tok.token.isascii()):
            run.violation("C13|generate|token-shape", f"token {tok.token!r} is not {digits} decimal digits", w, rp)
        if tok.counter != counter or tok.start_time != counter * period or tok.expire_time != (counter + 1) * period:
            run.violation("C13|generate|validity-interval", f"counter/start/expire = {tok.counter}/{tok.start_time}/{tok.expire_time}, expected {counter}/{counter * period}/{(counter + 1) * period}",
                          w, rp)
        if i % 5 == 0:
            # the same object used again: another time, then given another key (cached state must follow the key)
            try:
                t2 = rng.randrange(0, 2 ** 31)
                tok2 = otp.generate(t2).token
                key2 = H.pw_bytes(rng, rng.randint(1, 64), "binary")
                otp.key = key2
                tok3 = otp.generate(t2).token
                tok4 = TOTP(key=key2, format="raw", alg=alg, digits=digits, period=period).generate(t2).token
            except Exception as e:
                run.violation(f"C13|reuse|raises|{type(e).__name__}", f"second use of a TOTP object raised {type(e).__name__}: {str(e)[:100]}", w, rp)
                continue
            run.count("object_reuse")
            run.case(("reuse", alg, digits), None)
            if tok2 != ref_hotp(key, t2 // period, digits, alg):
                run.violation("C13|reuse|second-generate-mismatch", f"second generate() on one object = {tok2}, RFC value {ref_hotp(key, t2 // period, digits, alg)}", dict(w, time2=t2), rp)
            if tok3 != ref_hotp(key2, t2 // period, digits, alg) or tok3 != tok4:
                run.violation("C13|reuse|rekeyed-object-mismatch", f"after otp.key = <new key> generate() = {tok3}, RFC value for the new key {ref_hotp(key2, t2 // period, digits, alg)}",
                              dict(w, time2=t2, key2=key2), rp + f"\nt.key={key2!r}\nprint(t.generate({t2}).token)")
    # key spellings
    m = (3000 if run.tier == "quick" else 240000) // parts
    for i in range(m):
        klen = rng.choice(list(range(10, 41)) + [64])
        key = H.pw_bytes(rng, klen, "binary")
        base = TOTP(key=key, format="raw")
        b32 = base64.b32encode(key).decode().rstrip("=")
        hx = key.hex()

        def deco(s):
            out = []
            for j, ch in enumerate(s):
                out.append(ch.lower() if rng.random() < 0.5 else ch.upper())
                if rng.random() < 0.2:
                    out.append(rng.choice([" ", "-", "  ", " - ", "\u00a0", "\u2009", "\u3000", "\t"]))       # any white space counts as a blank
            return "".join(out)
        spellings = [("base32", b32, "base32"), ("base32-lower", b32.lower(), "base32"), ("base32-decorated", deco(b32), "base32"),
                     ("base32-padded", base64.b32encode(key).decode(), "base32"), ("hex", hx, "hex"), ("hex-upper", hx.upper(), "hex"), ("hex-decorated", deco(hx), "hex"),
                     ("bytes-base32", b32.encode(), "base32"),
                     ("pretty-base32", base.pretty_key(), "base32"), ("pretty-base32-blank", base.pretty_key(sep=" "), "base32"), ("pretty-hex", base.pretty_key(format="hex"), "hex"),
                     ("pretty-nosep", base.pretty_key(sep=False), "base32"), ("base32_key", base.base32_key, "base32"), ("hex_key", base.hex_key, "hex")]
        t = rng.randrange(2 ** 31)
        for label, text, fmt in spellings:
            try:
                other = TOTP(key=text, format=fmt)
            except Exception as e:
                run.violation(f"C13|key-spelling|{label}|raises|{type(e).__name__}", f"key given as {label} ({text!r}) raised {type(e).__name__}: {e}", dict(key=key, text=text))
                continue
            run.case(("key-spelling", label, klen % 5), dict(key=key, spelling=label, text=text))
            run.count("key_spellings")
            if other.key != key or other.generate(t).token != base.generate(t).token:
                run.violation(f"C13|key-spelling|{label}|different-key", f"the {label} spelling {text!r} of a {klen}-byte key denotes a different key ({len(other.key)} bytes)",
                              dict(key=key, text=text, got=other.key))


def body(run):
    P = 16
    # the process time zone must not matter: shards run under UTC, a western, an eastern and a fractional-offset zone (POSIX TZ strings, no tzdata needed)
    zones = ["UTC0", "EST5EDT,M3.2.0,M11.1.0", "IST-5:30", "NZST-12NZDT,M9.5.0,M4.1.0/3"]
    for zi, tz in enumerate(zones):
        run.parallel("checks.c13", "work", [dict(part=i, parts=P) for i in range(P) if i % len(zones) == zi], timeout=900 if run.tier == "quick" else 3600, env={"TZ": tz})
    for tz in zones:
        run.require("shards_with_process_timezone:" + tz, 1)
    run.require("generate", 300000)
    run.require("key_spellings", 20000)
    run.require("object_reuse", 10000)
    for k in ("aware", "naive", "float", "boundary", "boundary-1", "big", "zero", "huge", "aware-far"):
        run.require(f"kind:{k}", 100)
    run.assumptions += ["reference = RFC 4226 dynamic truncation over stdlib hmac, validated on the RFC 4226/6238 vectors at the start of every shard",
                        "naive date-times are UTC (as documented); sub-second parts are discarded"]


if __name__ == "__main__":
    main("C13", "exploration", RULE, body)
