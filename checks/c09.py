"""C09 - using() gives a hasher that honours its settings; the original is untouched.

History monitor over chains of using() calls (derive from derived, depth <= 4) interleaved with use of the parents:
 * an executable window model (vlib/models/using_window.py) predicts for every step whether the call must be refused
   (ValueError) or what cost range / salt size / ident / variant / truncation policy the child's hashes must carry and
   which hashes its update check must flag;
 * isolation invariant checked at every step: a fingerprint (public configuration attributes, parameters of fresh
   hashes, update-check answers on a fixed corpus) of every ancestor and of the registry object is re-taken after each
   using()/hash() and must not change; passlib.hash.<name> stays the registry object."""
import re

from vlib import hashers as H
from vlib.models import using_window as W
from vlib.models import context_policy as M
from vlib.run import main

RULE = ("case = one step of a using() chain (hasher, inherited state, keywords incl. relaxed and string/number spelling) with its "
        "hashes and update checks, plus the isolation fingerprints of all ancestors; distinct = distinct (hasher, keyword set, "
        "value position relative to the limits, relaxed, depth) tuples")

CHEAP = {"sha256_crypt": (1000, 2500), "sha512_crypt": (1000, 2500), "pbkdf2_sha256": (1, 300), "pbkdf2_sha1": (1, 300), "pbkdf2_sha512": (1, 300),
         "sha1_crypt": (1, 300), "bcrypt": (4, 6), "bcrypt_sha256": (4, 6), "phpass": (7, 9), "scram": (1, 200), "bsdi_crypt": (1, 301),
         "ldap_pbkdf2_sha256": (1, 300), "django_pbkdf2_sha256": (1, 300), "django_pbkdf2_sha1": (1, 300), "cta_pbkdf2_sha1": (1, 300),
         "dlitz_pbkdf2_sha1": (1, 300), "grub_pbkdf2_sha512": (1, 200), "fshp": (1, 300), "scrypt": (1, 4), "sun_md5_crypt": (0, 60),
         "django_bcrypt": (4, 6), "ldap_bcrypt": (4, 6), "ldap_sha256_crypt": (1000, 2500), "ldap_sha1_crypt": (1, 300), "django_bcrypt_sha256": (4, 6),
         "ldap_bsdi_crypt": (1, 301)}
ATTRS = ["default_rounds", "min_desired_rounds", "max_desired_rounds", "vary_rounds", "default_salt_size", "default_ident", "truncate_error",
         "default_variant", "version", "block_size", "parallelism", "default_algs", "default_marker", "min_rounds", "max_rounds", "min_salt_size",
         "max_salt_size", "name"]
PW = "pw4using"


def hard(h):
    return dict(min=h.min_rounds, max=h.max_rounds, default=h.default_rounds, cost=h.rounds_cost)


def cost_of(name, h, hs):
    b = H.base_name(h)
    c = None
    try:
        c = M.cost_of(b, hs if not hasattr(h, "wrapped") else hs[len(h.prefix):] if hasattr(h, "prefix") else hs)
    except Exception:
        c = None
    if c is None:
        obj = (h.wrapped if hasattr(h, "wrapped") else h).from_string(h._unwrap_hash(hs) if hasattr(h, "wrapped") else hs)
        c = obj.rounds
    return c


class _Nothing:
    pass


def parsed(h, hs):
    base = h.wrapped if hasattr(h, "wrapped") else h
    if not hasattr(base, "from_string"):
        return _Nothing()
    return base.from_string(h._unwrap_hash(hs) if hasattr(h, "wrapped") else hs)


def gen_kw(rng, h, name, state, depth):
    """keywords for one using() step + what non-rounds settings they should produce"""
    kw = {}
    sk = h.setting_kwds
    has_rounds = "rounds" in sk and name in CHEAP
    if has_rounds:
        lo, hi = CHEAP[name]
        hmin, hmax = h.min_rounds, h.max_rounds
        odd = name.endswith("bsdi_crypt")

        def val(kind):
            r = rng.random()
            if kind == "min" and r < 0.12:
                return hmin - rng.choice([1, 2])            # below the hard minimum
            if kind == "max" and r < 0.12 and hmax is not None:
                return hmax + rng.choice([1, 5])            # above the hard maximum
            v = rng.randint(lo, hi)
            return v | 1 if odd else v
        n = rng.random()
        keys = rng.choice([["default_rounds"], ["max_rounds"], ["min_rounds", "max_rounds"], ["min_rounds", "max_rounds", "default_rounds"], ["rounds"],
                           ["min_rounds"], ["vary_rounds"], ["max_rounds", "vary_rounds"], ["default_rounds", "vary_rounds"], []])
        if depth == 0 and not ({"default_rounds", "max_rounds", "rounds"} & set(keys)):
            keys = keys + ["max_rounds"]          # the registry default is expensive: bound the cost of the first level
        for k in keys:
            if k == "vary_rounds":
                kw[k] = rng.choice([0, 1, 3, 25, 0.1, 0.5, "10%", "7", 1.5, -1]) if h.rounds_cost == "linear" else rng.choice([0, 1, 2, -1])
            elif k == "min_rounds":
                kw[k] = val("min")
            elif k == "max_rounds":
                kw[k] = val("max")
            else:
                kw[k] = val("default")
        if odd and rng.random() < 0.25:
            m = rng.randint(lo, hi) | 1
            kw = dict(min_rounds=m, max_rounds=m + 1)        # a two-value window whose upper bound is even
            if rng.random() < 0.5:
                kw["default_rounds"] = m + 1
        # mostly-consistent ordering so that many cases are valid
        if "min_rounds" in kw and "max_rounds" in kw and kw["min_rounds"] > kw["max_rounds"] and rng.random() < 0.7:
            kw["min_rounds"], kw["max_rounds"] = kw["max_rounds"], kw["min_rounds"]
        if "default_rounds" in kw and rng.random() < 0.7:
            a = kw.get("min_rounds", state["mn"]) or lo
            b = kw.get("max_rounds", state["mx"]) or hi
            if a <= b:
                kw["default_rounds"] = max(a, min(b, kw["default_rounds"]))
        if "min_rounds" in kw and "max_rounds" not in kw and "rounds" not in kw and state["mx"] and kw["min_rounds"] > state["mx"]:
            kw["min_rounds"] = state["mx"]      # (a minimum above the inherited maximum is a contradictory request)
        if "default_rounds" in kw and "min_rounds" in kw and "max_rounds" not in kw and state["mx"] and kw["default_rounds"] > state["mx"]:
            kw["default_rounds"] = state["mx"]
        for k in list(kw):
            if k != "vary_rounds" and rng.random() < 0.2:
                kw[k] = str(kw[k])
    if "salt_size" in sk and rng.random() < 0.35:
        lo_s, hi_s = h.min_salt_size, h.max_salt_size
        kw["salt_size"] = rng.choice([lo_s - 1, lo_s, h.default_salt_size, (hi_s or 30), (hi_s or 30) + 1, rng.randint(lo_s, min(hi_s or 30, 30))])
    if "ident" in sk and rng.random() < 0.3:
        idents = [i for i in (h.wrapped.ident_values if hasattr(h, "wrapped") else h.ident_values) if "2x" not in i and i != "$7$"]   # ($7$ limits salts differently; C02/C07 cover it)
        kw["ident"] = rng.choice(idents + ["bogus"])
    if "truncate_error" in sk and rng.random() < 0.4:
        kw["truncate_error"] = rng.choice([True, False, "true", "false", "maybe"])
    if "variant" in sk and rng.random() < 0.3:
        kw["variant"] = rng.choice([0, 1, 2, 3, "sha512", 9])
    if name == "bcrypt_sha256" and rng.random() < 0.3:
        kw["version"] = rng.choice([1, 2, 3])
    if "block_size" in sk and rng.random() < 0.3:
        kw["block_size"] = rng.choice([1, 2, 8, 0])
    if "parallelism" in sk and name == "scrypt" and rng.random() < 0.3:
        kw["parallelism"] = rng.choice([1, 2, 3, 0])
    if "algs" in sk and rng.random() < 0.3:
        kw["algs"] = rng.choice(["sha-1,sha-256", "sha-1", ["sha-1", "sha-512", "md5"], "sha-256"])
    if "marker" in sk and rng.random() < 0.5:
        kw["marker"] = rng.choice(["*", "!", "*locked*", "x"])
    if name == "cisco_type7" and rng.random() < 0.5:
        kw["salt"] = rng.choice([-7, -1, 0, 1, 9, 15, 16, 51, 52, 53, 99])
    if rng.random() < 0.3:
        kw["relaxed"] = True
    return kw


def model_step(h0, name, state, kw):
    """new model state or Refused"""
    st = dict(state)
    relaxed = bool(kw.get("relaxed"))
    if "rounds" in h0.setting_kwds and name in CHEAP:
        st.update(W.derive(dict(mn=state["mn"], mx=state["mx"], d=state["d"], vary=state["vary"]), kw, hard(h0)))
    if "salt_size" in kw:
        v, lo, hi = kw["salt_size"], h0.min_salt_size, h0.max_salt_size
        if v < lo:
            if not relaxed:
                raise W.Refused("salt_size below minimum")
            v = lo
        if hi is not None and v > hi:
            if not relaxed:
                raise W.Refused("salt_size above maximum")
            v = hi
        st["salt_size"] = v
    if "ident" in kw:
        if kw["ident"] not in (h0.wrapped.ident_values if hasattr(h0, "wrapped") else h0.ident_values) or (name == "bcrypt_sha256" and kw["ident"] not in ("$2a$", "$2b$")):
            raise W.Refused("unknown ident")
        st["ident"] = kw["ident"]
    if "truncate_error" in kw:
        v = kw["truncate_error"]
        if v == "maybe":
            raise W.Refused("not a boolean")
        st["truncate_error"] = v in (True, "true")
    if "variant" in kw:
        v = {"sha1": 0, "sha256": 1, "sha384": 2, "sha512": 3}.get(kw["variant"], kw["variant"])
        if v not in (0, 1, 2, 3):
            raise W.Refused("unknown variant")
        st["variant"] = v
    if "version" in kw:
        if kw["version"] not in (1, 2):
            raise W.Refused("unknown version")
        st["version"] = kw["version"]
    if "block_size" in kw:
        if kw["block_size"] < 1:
            raise W.Refused("block_size")
        st["block_size"] = kw["block_size"]
    if "parallelism" in kw:
        if kw["parallelism"] < 1:
            raise W.Refused("parallelism")
        st["parallelism"] = kw["parallelism"]
    if "algs" in kw:
        algs = kw["algs"].split(",") if isinstance(kw["algs"], str) else list(kw["algs"])
        if "sha-1" not in algs:
            raise W.Refused("sha-1 required")
        st["algs"] = sorted(algs)
    if "marker" in kw:
        if kw["marker"] == "x" or not kw["marker"]:
            raise W.Refused("marker")
        st["marker"] = kw["marker"]
    if name == "cisco_type7" and "salt" in kw:
        v = kw["salt"]
        if v < 0 or v > 52:                      # documented range of the key offset: 0..52
            if not relaxed:
                raise W.Refused("salt outside 0..52")
            v = 0 if v < 0 else 52
        st["salt_value"] = v
    if name == "bcrypt_sha256" and st.get("version", 2) == 2 and st.get("ident") == "$2a$":
        raise W.Refused("bcrypt-sha256 v2 requires 2b")
    return st


def initial_state(h):
    st = dict(mn=getattr(h, "min_desired_rounds", None), mx=getattr(h, "max_desired_rounds", None), d=getattr(h, "default_rounds", None),
              vary=getattr(h, "vary_rounds", None))
    return st


def fingerprint(h, name, cheap_hashes):
    fp = {a: repr(getattr(h, a, None)) for a in ATTRS}
    if cheap_hashes:
        try:
            hs = h.hash(PW, **ctx_kw(h))
            p = parsed(h, hs)
            fp["fresh"] = (getattr(p, "rounds", None) is not None, slen(getattr(p, "salt", None)), getattr(p, "ident", None), getattr(p, "variant", None))
        except Exception as e:
            fp["fresh"] = "exc:" + type(e).__name__
    return fp


def slen(salt):
    return len(salt) if hasattr(salt, "__len__") else -1


def ctx_kw(h):
    ck = getattr(h, "context_kwds", ())
    out = {}
    if "user" in ck:
        out["user"] = "user"
    if "realm" in ck:
        out["realm"] = "realm"
    return out


def window_fp(h, name, h0, corpus):
    """update-check answers on a fixed corpus: part of the isolation fingerprint"""
    out = []
    for c, hs in corpus:
        try:
            out.append(h.needs_update(hs))
        except Exception as e:
            out.append(type(e).__name__)
    return out


_corpus_cache = {}


def corpus_for(name, h0):
    if name not in _corpus_cache:
        out = []
        if "rounds" in h0.setting_kwds and name in CHEAP:
            lo, hi = CHEAP[name]
            vals = sorted({lo, lo + 1, (lo + hi) // 2, hi, hi + 1, max(h0.min_rounds, lo - 1)})
            for v in vals:
                if name.endswith("bsdi_crypt"):
                    v |= 1
                try:
                    out.append((v, h0.using(rounds=v).hash(PW, **ctx_kw(h0))))
                    if H.base_name(h0) == "bcrypt":
                        # stored hashes of the older idents are judged by the same cost window
                        for idn in ("2a", "2y"):
                            out.append((v, h0.using(rounds=v, ident=idn).hash(PW, **ctx_kw(h0))))
                except ValueError:
                    pass
        else:
            out.append((None, h0.hash(PW, **ctx_kw(h0))))
        _corpus_cache[name] = out
    return _corpus_cache[name]


def pos_class(v, lo, hi, hmin, hmax):
    if v is None:
        return "none"
    v = W.parse_num(v) if not isinstance(v, float) else v
    if v < hmin:
        return "below-hard-min"
    if hmax is not None and v > hmax:
        return "above-hard-max"
    return "in-range"


def chain(run, rng, name, forced=None):
    import passlib.hash as PH
    import passlib.exc as X
    h0 = H.get(name)
    reg_fp = fingerprint(h0, name, False)
    corpus = corpus_for(name, h0)
    reg_wfp = window_fp(h0, name, h0, corpus)
    levels = []            # (hasher, model state, fingerprint, window-fingerprint, kw that made it)
    cur, state = h0, initial_state(h0)
    state.update(salt_size=getattr(h0, "default_salt_size", None), ident=getattr(h0, "default_ident", None), truncate_error=getattr(h0, "truncate_error", None))
    depth = 0
    path = []
    step = 0
    while depth < 4:
        if forced is not None:
            if step >= len(forced):
                break
            kw = dict(forced[step])
        else:
            kw = gen_kw(rng, h0, name, state, depth)
        step += 1
        path.append(kw)
        w = dict(hasher=name, chain=[dict(k) for k in path])
        rp = "import warnings; warnings.simplefilter('ignore')\nimport passlib.hash as H\nh = H." + name + "".join(f".using(**{k!r})" for k in path) + "\nprint(h.hash('pw'))"
        try:
            want = model_step(h0, name, state, kw)
            refused = None
        except W.Refused as e:
            want, refused = None, str(e)
        try:
            child = cur.using(**kw)
            raised = None
        except (ValueError, TypeError) as e:
            child, raised = None, type(e).__name__
        except Exception as e:
            run.violation(f"C09|{name}|using-internal-error|{type(e).__name__}", f"{name}.using({kw}) raised {type(e).__name__}: {str(e)[:100]}", w, rp)
            path.pop()
            break
        hd = hard(h0) if "rounds" in h0.setting_kwds else dict(min=0, max=None)
        klass = tuple(sorted((k, pos_class(v, 0, 0, hd["min"], hd["max"]) if k.endswith("rounds") and k != "vary_rounds" else type(v).__name__) for k, v in kw.items()))
        run.case((name, klass, depth), w if child is not None else None)
        run.count(f"steps:{name}")
        run.count("steps")
        if refused and child is not None:
            # accepted although the model refuses: only a problem if it is observable
            bad = observable_break(run, name, h0, child, refused, kw)
            if bad:
                run.violation(f"C09|{name}|invalid-setting-accepted|{refused.replace(' ', '-')}", f"{name}.using({kw}) was accepted ({refused}); {bad}", w, rp)
            else:
                run.count("model_refused_but_accepted_harmlessly")
            path.pop()
            continue
        if not refused and child is None:
            run.violation(f"C09|{name}|valid-setting-refused|{'+'.join(sorted(k for k in kw if k != 'relaxed'))}", f"{name}.using({kw}) on state {state} raised {raised}; the window arithmetic says it is valid", w, rp)
            path.pop()
            continue
        if child is None:
            run.count("refusals")
            path.pop()
            continue
        if child is cur or child is h0:
            if kw and set(kw) != {"relaxed"}:
                run.violation(f"C09|{name}|using-returned-parent", f"{name}.using({kw}) returned the hasher it was called on", w, rp)
        # ---- the child honours its settings
        check_child(run, rng, name, h0, child, want, kw, w, rp, corpus)
        # ---- isolation: every ancestor and the registry object are unchanged
        if getattr(PH, name) is not h0:
            run.violation(f"C09|{name}|registry-object-replaced", f"passlib.hash.{name} is no longer the registry object after using()", w)
        now = fingerprint(h0, name, False)
        if now != reg_fp or window_fp(h0, name, h0, corpus) != reg_wfp:
            diff = {k: (reg_fp[k], now[k]) for k in now if now[k] != reg_fp.get(k)}
            run.violation(f"C09|{name}|registry-object-changed|{'+'.join(sorted(diff)) or 'update-check'}", f"passlib.hash.{name} changed after {name}.using({kw}): {diff}", w, rp)
            reg_fp = now
        for li, (anc, ast, afp, awfp, akw) in enumerate(levels):
            nfp = fingerprint(anc, name, True)
            nw = window_fp(anc, name, h0, corpus)
            if nfp != afp or nw != awfp:
                diff = {k: (afp[k], nfp[k]) for k in nfp if nfp[k] != afp.get(k)}
                run.violation(f"C09|{name}|ancestor-changed|{'+'.join(sorted(diff)) or 'update-check'}",
                              f"{name}: ancestor at depth {li + 1} changed after a descendant was derived with {kw}: {diff or (awfp, nw)}", w, rp)
                levels[li] = (anc, ast, nfp, nw, akw)
            # ancestors keep honouring THEIR settings (after the child was made and used)
            check_child(run, rng, name, h0, anc, ast, akw, dict(w, rechecked_ancestor_depth=li + 1), rp, corpus, light=True)
        run.count("isolation_checks", len(levels) + 1)
        levels.append((child, want, fingerprint(child, name, True), window_fp(child, name, h0, corpus), kw))
        cur, state = child, want
        depth += 1


def observable_break(run, name, h0, child, refused, kw):
    """the model refuses this call but passlib accepted it: is anything observable wrong?"""
    try:
        hs = child.hash(PW, **ctx_kw(h0))
    except (ValueError, TypeError) as e:
        return None   # refused at hash time instead: acceptable
    except Exception as e:
        return f"hash() raised {type(e).__name__}"
    # whatever was accepted, the hash the derived hasher makes must be one the format itself understands
    try:
        if not h0.identify(hs) or not h0.verify(PW, hs, **ctx_kw(h0)):
            return f"produced {hs[:48]!r}, which the format itself does not identify / verify"
    except (ValueError, TypeError) as e:
        return f"produced {hs[:48]!r}, which the format itself rejects ({type(e).__name__}: {str(e)[:60]})"
    if "rounds" in h0.setting_kwds and name in CHEAP:
        c = cost_of(name, h0, hs)
        if c < h0.min_rounds or (h0.max_rounds is not None and c > h0.max_rounds):
            return f"produced a hash with cost {c} outside the hard limits"
        if child.needs_update(hs):
            return f"its own fresh hash (cost {c}) needs updating"
    if "hard" in refused and not kw.get("relaxed"):
        return f"a value outside the hard limits was neither refused nor given relaxed=True ({refused})"
    if refused in ("unknown ident", "unknown variant", "unknown version", "not a boolean", "sha-1 required", "bcrypt-sha256 v2 requires 2b"):
        return f"{refused}: produced {hs[:40]!r}"
    return None


def check_child(run, rng, name, h0, child, want, kw, w, rp, corpus, light=False):
    import passlib.exc as X
    has_rounds = "rounds" in h0.setting_kwds and name in CHEAP
    hd = hard(h0) if has_rounds else None
    lo = hi = None
    if has_rounds:
        lo, hi = W.new_hash_range(want, hd)
    n = 2 if light else (6 if (want.get("vary") and has_rounds) else 3)
    ck = ctx_kw(h0)
    for i in range(n):
        try:
            hs = child.hash(PW, **ck)
        except Exception as e:
            if H.base_name(h0) == "scrypt" and isinstance(e, ValueError) and (want.get("d") or 16) >= 16 * (want.get("block_size") or 8):
                # RFC 7914 requires N < 2^(128*r/8): cost 16 with block size 1 is not a parameter set of the algorithm (refused by the backend with a value error)
                run.count("scrypt_rfc7914_limit_refused")
                return
            run.violation(f"C09|{name}|hash-raises|{type(e).__name__}", f"{name}: hasher derived with valid settings cannot hash: {type(e).__name__}: {str(e)[:100]}", w, rp)
            return
        p = parsed(h0, hs)
        if want.get("salt_value") is not None:
            run.count("pinned_offset_checks")
            if hs[:2] != "%02d" % want["salt_value"]:
                run.violation(f"C09|{name}|salt-offset-not-honoured", f"{name}: configured key offset {want['salt_value']} (chain {[k.get('salt') for k in w['chain']]}) but the hash starts with {hs[:2]!r}", dict(w, hash=hs), rp)
        if has_rounds:
            c = cost_of(name, h0, hs)
            if c < hd["min"] or (hd["max"] is not None and c > hd["max"]):
                run.violation(f"C09|{name}|hash-outside-hard-limits", f"{name}: produced cost {c} outside the hard limits", dict(w, hash=hs), rp)
            ok = lo is None or lo <= c <= hi
            if name.endswith("bsdi_crypt") and lo is not None and not ok:
                ok = c % 2 == 1 and lo - 1 <= c <= hi + 1 and (not want["mn"] or c >= want["mn"]) and (not want["mx"] or c <= want["mx"])
                if not ok and want["mx"] and not any(v % 2 for v in range(max(want["mn"] or 1, 1), want["mx"] + 1)):
                    run.violation("C09|bsdi_crypt|even-only-window-overshoot", f"{name}: window without an odd value: new hash has cost {c}", dict(w, hash=hs), rp)
                    ok = True
            if not ok:
                run.violation(f"C09|{name}|cost-outside-configured-window", f"{name}: new hash has cost {c}; the configured window gives [{lo},{hi}] (min={want['mn']} max={want['mx']} default={want['d']} vary={want.get('vary')})",
                              dict(w, hash=hs, model=want), rp)
            try:
                even_only = name.endswith("bsdi_crypt") and want["mx"] and not any(v % 2 for v in range(max(want["mn"] or 1, 1), want["mx"] + 1))
                if child.needs_update(hs) and not (name.endswith("bsdi_crypt") and c % 2 == 0) and not even_only:
                    run.violation(f"C09|{name}|fresh-hash-needs-update", f"{name}: the derived hasher flags its own fresh hash (cost {c})", dict(w, hash=hs), rp)
            except Exception as e:
                run.violation(f"C09|{name}|needs_update-raises|{type(e).__name__}", f"{name}: needs_update raised {e}", w)
        if want.get("salt_size") is not None and "salt" in h0.setting_kwds and "salt" not in kw:
            sl = slen(getattr(p, "salt", None))
            if sl >= 0 and sl != want["salt_size"] and not (H.base_name(h0) in ("bcrypt", "bcrypt_sha256", "django_bcrypt_sha256") and sl == 22) \
                    and not (H.base_name(h0) == "scrypt" and want.get("ident") == "$7$"):
                run.violation(f"C09|{name}|salt-size", f"{name}: salt of {sl} symbols, configured salt_size {want['salt_size']}", dict(w, hash=hs), rp)
        if want.get("ident") and getattr(p, "ident", None) is not None and "ident" in h0.setting_kwds:
            wi = want["ident"]
            if hasattr(h0, "wrapped"):
                wi = wi[len(h0.prefix):] if wi.startswith(getattr(h0, "prefix", "\x00")) else wi
            if p.ident != wi and not (name == "bcrypt_sha256"):
                run.violation(f"C09|{name}|ident", f"{name}: hash has ident {p.ident!r}, configured {want['ident']!r}", dict(w, hash=hs), rp)
        for k in ("variant", "block_size", "parallelism", "version"):
            if want.get(k) is not None and getattr(p, k, None) is not None and getattr(p, k) != want[k]:
                run.violation(f"C09|{name}|{k}", f"{name}: hash has {k}={getattr(p, k)!r}, configured {want[k]!r}", dict(w, hash=hs), rp)
        if want.get("algs") and sorted(getattr(p, "algs", [])) != want["algs"]:
            run.violation(f"C09|{name}|algs", f"{name}: hash has algs {getattr(p, 'algs', None)}, configured {want['algs']}", dict(w, hash=hs), rp)
        if want.get("marker") and name == "unix_disabled" and hs != want["marker"]:
            run.violation(f"C09|{name}|marker", f"unix_disabled: marker {hs!r}, configured {want['marker']!r}", w, rp)
        run.trivial()
    # update check flags hashes outside the configured window, and only those
    if has_rounds:
        for c, hs in corpus:
            exp = W.needs_update(want, c) or M.own_flag(H.base_name(h0), hs if not hasattr(h0, "wrapped") else h0._unwrap_hash(hs))
            if (want.get("block_size") or want.get("parallelism")) and H.base_name(h0) == "scrypt":
                continue
            if want.get("version") == 2 and name == "bcrypt_sha256":
                pass
            try:
                got = child.needs_update(hs)
            except Exception as e:
                run.violation(f"C09|{name}|needs_update-raises|{type(e).__name__}", f"{name}: needs_update raised {e}", w)
                continue
            if name == "scram" and want.get("algs"):
                continue
            if got is not exp:
                run.violation(f"C09|{name}|update-check|expected-{exp}", f"{name}: needs_update is {got!r} for a hash with cost {c}; configured window min={want['mn']} max={want['mx']}", dict(w, probe=hs, model=want), rp)
            run.trivial()
    # truncation policy
    if want.get("truncate_error") is not None and "truncate_error" in h0.setting_kwds and not light:
        long_pw = "x" * (h0.truncate_size + 3)
        if name != "lmhash" and rng.random() < 0.5:
            # within the limit in characters, beyond it in bytes
            long_pw = "é" * (h0.truncate_size // 2 + 1) + "x" * (h0.truncate_size // 2 - 1)
        try:
            child.hash(long_pw, **ck)
            raised = False
        except X.PasswordTruncateError:
            raised = True
        except Exception as e:
            raised = type(e).__name__
        if raised is not want["truncate_error"]:
            run.violation(f"C09|{name}|truncate-policy|expected-raise-{want['truncate_error']}",
                          f"{name}: truncate_error={want['truncate_error']} configured (chain {[k.get('truncate_error') for k in w['chain']]}), hashing an over-long password raised={raised}", w, rp)
        run.count("truncate_policy_checks")


def work(run, names, n_chains):
    for name in names:
        if not H.usable(name):
            continue
        rng = run.rng("chains:" + name)
        for i in range(n_chains):
            try:
                chain(run, rng, name)
            except Exception as e:
                import traceback
                run.violation(f"C09|{name}|harness-or-library-error|{type(e).__name__}", f"{name}: unexpected {type(e).__name__}: {str(e)[:120]}", dict(tb=traceback.format_exc()[-900:]))


def directed(run, name):
    """complete products of small setting spaces through two-step chains (each half alone is fine; the combination decides)"""
    rng = run.rng("directed:" + name)
    if name == "bcrypt_sha256":
        A = [{}, {"version": 1}, {"version": 2}, {"ident": "$2a$"}, {"ident": "$2b$"}, {"version": 1, "ident": "$2a$"}, {"version": 1, "ident": "$2b$"}, {"version": 2, "ident": "$2b$"}, {"version": 2, "ident": "$2a$"}]
        first = dict(default_rounds=4, max_rounds=5)
    elif name == "cisco_type7":
        A = [{"salt": v, **({"relaxed": True} if r else {})} for v in (-7, -1, 0, 15, 52, 53, 99) for r in (0, 1)] + [{}]
        first = {}
    else:
        return
    for a in A:
        for b in A:
            try:
                chain(run, rng, name, forced=[dict(first, **a), b])
                run.count("directed_chains")
            except Exception as e:
                import traceback
                run.violation(f"C09|{name}|harness-or-library-error|{type(e).__name__}", f"{name}: unexpected {type(e).__name__}: {str(e)[:120]}", dict(tb=traceback.format_exc()[-900:]))


def boundary_defaults(run, names):
    """window-only step after a default that sits on a boundary (incl. the hard minimum, which is 0 for sun_md5_crypt): the
    inherited default has to be clipped into the new window although the step itself names no default"""
    for name in names:
        if not H.usable(name):
            continue
        rng = run.rng("boundary:" + name)
        lo, hi = CHEAP[name]
        odd = name.endswith("bsdi_crypt")
        mid = (lo + hi) // 2
        if odd:
            mid |= 1
        for first, second in [(dict(default_rounds=lo, max_rounds=hi), dict(min_rounds=mid, max_rounds=hi)),
                              (dict(default_rounds=lo, max_rounds=hi), dict(min_rounds=mid)),
                              (dict(default_rounds=hi, max_rounds=hi), dict(min_rounds=lo, max_rounds=mid)),
                              (dict(default_rounds=hi, max_rounds=hi), dict(max_rounds=mid)),
                              (dict(rounds=lo), dict(min_rounds=mid, max_rounds=hi)),
                              (dict(default_rounds=lo, max_rounds=hi, vary_rounds=0), dict(min_rounds=mid, max_rounds=hi, vary_rounds=0))]:
            try:
                chain(run, rng, name, forced=[first, second])
                run.count("boundary_default_chains")
            except Exception as e:
                import traceback
                run.violation(f"C09|{name}|harness-or-library-error|{type(e).__name__}", f"{name}: unexpected {type(e).__name__}: {str(e)[:120]}", dict(tb=traceback.format_exc()[-900:]))


def body(run):
    names = [n for n in H.names() if H.usable(n)]
    # hashers whose default cost is expensive and that have no cheap range are only taken through non-cost settings
    skip = {n for n in names if "rounds" in getattr(H.get(n), "setting_kwds", ()) and n not in CHEAP}
    use = [n for n in names if n not in skip]
    for n in sorted(skip):
        run.note(f"{n}: cost settings not exercised (no cheap cost range defined); covered through its sibling formats")
    n_chains = 14 if run.tier == "quick" else 220
    order = sorted(use, key=lambda n: (("bcrypt" in n) + (n in CHEAP), n))
    run.parallel("checks.c09", "work", [dict(names=order[i::16], n_chains=n_chains) for i in range(16)], timeout=900 if run.tier == "quick" else 5400)
    run.parallel("checks.c09", "directed", [dict(name="bcrypt_sha256"), dict(name="cisco_type7")], timeout=900)
    cheap = sorted(n for n in use if n in CHEAP)
    run.parallel("checks.c09", "boundary_defaults", [dict(names=cheap[i::8]) for i in range(8)], timeout=900)
    run.require("boundary_default_chains", 60)
    run.require("directed_chains", 200)
    run.require("pinned_offset_checks", 50)
    run.require("steps", 1500 if run.tier == "quick" else 20000)
    run.require("isolation_checks", 1000)
    run.require("truncate_policy_checks", 20)
    for n in use:
        run.require(f"steps:{n}", 4)
    run.assumptions += ["window arithmetic restated in vlib/models/using_window.py from the documentation of using()",
                        "bsdi_crypt documents that it only generates odd costs (odd neighbour inside the window accepted)",
                        "bcrypt's $2x$ ident is documented as recognised-but-unsupported and is not an admissible ident"]


if __name__ == "__main__":
    main("C09", "exploration", RULE, body)
