"""C18 - a disabled account can never log in and can be restored intact.

History monitor against a small string model of disable()/enable(): contexts with unix_disabled (both marker styles) or
django_disabled at every list position; originals from every scheme of the context plus None, empty, already-disabled
strings and both markers; ALL disable/enable sequences to depth 4 (quick) / 7 (thorough) and random longer ones.  After every step: the string
is recognised as disabled iff the model says so, never verifies any password (empty, the original password, the hash
text itself), enable() restores exactly the embedded original or raises ValueError.  verify(pw, None) must be False and
is observed (call probe on the default scheme's verify) to cost a dummy verification - also after the configuration of
the context was changed."""
import itertools

from vlib import hashers as H
from vlib.run import main

RULE = ("case = one step of a disable/enable history (context layout, disabled hasher and marker, original hash kind) with all its "
        "observations, or one verify-against-None probe; distinct = distinct (disabled hasher, marker, position in the scheme list, "
        "original kind, operation sequence) tuples; sequences to depth 5 are enumerated completely")
import os
SIZE_LIMIT = int(os.environ.get("PASSLIB_MAX_PASSWORD_SIZE") or 4096)
PW = "s3cret pw"
MARKERS = "!*"


def nstr(x):
    return x.decode("ascii") if isinstance(x, bytes) else x


def is_disabled_form(s):
    return (not s) or s[0] in MARKERS


class UnixModel:
    """restatement of the documented behaviour of unix_disabled through a context"""

    def __init__(self, marker):
        self.marker = marker

    def strip(self, s):
        """the part after the marker: the configured marker (which may be several characters, e.g. Solaris' *LK*) or one marker character"""
        if not s:
            return ""
        return s[len(self.marker):] if s.startswith(self.marker) else s[1:]

    def disable(self, s):
        if s is None:
            return self.marker
        if is_disabled_form(s):
            s = self.strip(s)
        return self.marker + s

    def enable(self, s):
        """-> string or ValueError"""
        if not is_disabled_form(s):
            return s
        rest = self.strip(s)
        if rest:
            return rest
        return ValueError


def make_counting(base):
    calls = {"verify": 0}

    class counting(base):
        name = base.name

        @classmethod
        def verify(cls, secret, hash, **kw):
            calls["verify"] += 1
            return super().verify(secret, hash, **kw)
    return counting, calls


def layouts(rng, disabled):
    import passlib.hash as PH
    if disabled == "django_disabled":
        pool = ["django_pbkdf2_sha256", "django_salted_sha1", "django_salted_md5", "django_des_crypt"]
    else:
        pool = ["md5_crypt", "sha256_crypt", "des_crypt", "ldap_salted_sha1", "bsdi_crypt"]
    out = []
    for n in (1, 2, 3):
        real = rng.sample(pool, n)
        for pos in range(n + 1):
            s = list(real)
            s.insert(pos, disabled)
            if s[0] == disabled and len(s) == 1:
                continue
            out.append((s, pos, None))
            # an explicit default that is not the first scheme; a catch-all (plaintext) after the disabled hasher
            if len(real) > 1:
                out.append((s, pos, real[-1]))
            if disabled == "unix_disabled":
                out.append((s + ["plaintext"], pos, "plaintext" if n % 2 else None))
                out.append((s + ["plaintext"], pos, real[0]))
    return out


def cheap_kw(schemes):
    kw = {}
    for s in schemes:
        if isinstance(s, str) and s in ("sha256_crypt",):
            kw[f"{s}__max_rounds"] = 1500
        if isinstance(s, str) and s in ("django_pbkdf2_sha256",):
            kw[f"{s}__max_rounds"] = 20
        if isinstance(s, str) and s == "bsdi_crypt":
            kw[f"{s}__max_rounds"] = 21
    return kw


def observe(run, ctx, s, disabled_name, expect_disabled, w, originals_pw):
    """everything that must hold for the string s"""
    from passlib.exc import UnknownHashError
    import passlib.exc as X
    try:
        en = ctx.is_enabled(s)
        ident = ctx.identify(s)
    except Exception as e:
        run.violation(f"C18|{disabled_name}|is_enabled-raises|{type(e).__name__}", f"is_enabled/identify raised {type(e).__name__} for {s!r}", w)
        return False
    run.trivial()
    if expect_disabled:
        if en is not False or ident != disabled_name:
            run.violation(f"C18|{disabled_name}|disabled-string-not-recognised", f"{s!r}: is_enabled={en} identify={ident!r}; it is a disabled-account string", dict(w, string=s),
                          repro=f"# context {w.get('schemes')}\nprint('is_enabled', {en})")
            return False
        for pw in ["", PW, s, s[1:], "x", b"", s.encode()] + originals_pw:
            try:
                v = ctx.verify(pw, s)
                vu = ctx.verify_and_update(pw, s)
            except X.PasswordSizeError:
                if len(pw) > SIZE_LIMIT:
                    run.count("oversized_probe_refused")        # the library-wide size limit (lowered in some shards) refuses the probe: not accepted either
                    continue
                run.violation(f"C18|{disabled_name}|verify-raises|PasswordSizeError", f"verify of a {len(pw)}-character password raised PasswordSizeError below the limit {SIZE_LIMIT}", dict(w, string=s))
                return False
            except Exception as e:
                run.violation(f"C18|{disabled_name}|verify-raises|{type(e).__name__}", f"verify({pw!r}, {s!r}) raised {type(e).__name__}: {str(e)[:80]}", dict(w, string=s))
                return False
            run.trivial()
            run.count("disabled_verifies")
            if v is not False or vu != (False, None):
                run.violation(f"C18|{disabled_name}|disabled-account-verifies", f"a disabled-account string {s!r} verifies password {pw!r}: verify={v} verify_and_update={vu}", dict(w, string=s, password=pw))
                return False
    else:
        if en is not True:
            run.violation(f"C18|{disabled_name}|normal-hash-reported-disabled", f"{s!r} reported disabled", dict(w, string=s))
            return False
    return True


def histories(run, disabled, marker, part, parts):
    from passlib.context import CryptContext
    rng = run.rng(f"h:{disabled}:{marker}:{part}")
    lay = layouts(rng, disabled)
    depth = 7 if run.tier == "thorough" else 4
    seqs = [seq for d in range(1, depth + 1) for seq in itertools.product("DE", repeat=d)]
    model = UnixModel(marker) if disabled == "unix_disabled" else None
    for li, (schemes, pos, default) in enumerate(lay):
        if li % parts != part:
            continue
        kw = cheap_kw(schemes)
        if disabled == "unix_disabled" and marker != "!":
            kw["unix_disabled__marker"] = marker
        if default:
            kw["default"] = default
            if li % 2:
                kw["legacy__context__default"] = schemes[0] if schemes[0] != disabled else schemes[1]
        try:
            ctx = CryptContext(schemes=schemes, **kw)
        except Exception as e:
            run.violation(f"C18|{disabled}|context-refused|{type(e).__name__}", f"context {schemes} refused: {e}", dict(schemes=schemes))
            continue
        originals = [("none", None, None), ("empty", "", None), ("bare-marker-!", "!", None), ("bare-marker-*", "*", None)]
        for s in schemes:
            if s == disabled:
                continue
            hs = ctx.hash(PW, scheme=s)
            originals.append((s, hs, PW))
            originals.append(("already-disabled-!", "!" + hs, PW))
            originals.append(("already-disabled-*", "*" + hs, PW))
            originals.append(("double-marker", "!!" + hs, PW))
            if s == schemes[0] or s == schemes[-1]:
                # the same given as bytes (hash columns read in binary mode)
                originals.append(("bytes-original", hs.encode("ascii"), PW))
                originals.append(("bytes-already-disabled", ("!" + hs).encode("ascii"), PW))
        if disabled == "django_disabled":
            # django_disabled claims every string starting with '!' (incl. unix-style locked hashes) and nothing else
            originals = [o for o in originals if o[0] == "none" or not is_disabled_form(nstr(o[1]) or "") or nstr(o[1]).startswith("!")]
            originals += [("foreign-!!", "!!", None), ("foreign-!*", "!*", None)]
        for okind, orig, opw in originals:
            w0 = dict(schemes=schemes, default=default, disabled_hasher=disabled, marker=marker, position=pos, original_kind=okind, original=orig)
            if isinstance(orig, str) and (orig or disabled == "unix_disabled"):
                # the starting string itself, before any operation
                run.count("initial_strings_observed")
                observe(run, ctx, orig, disabled, is_disabled_form(orig), dict(w0, history=[]), [opw] if opw else [])
            for seq in seqs:
                cur = orig
                mcur = nstr(orig)
                log = []
                ok = True
                for step, op in enumerate(seq):
                    w = dict(w0, history=log + [op])
                    try:
                        if op == "D":
                            got = ctx.disable(cur) if (cur is not None or step) else ctx.disable()
                        else:
                            if cur is None:
                                break
                            got = ctx.enable(cur)
                        raised = None
                    except ValueError as e:
                        got, raised = None, "ValueError"
                    except Exception as e:
                        run.violation(f"C18|{disabled}|{'disable' if op == 'D' else 'enable'}-raises|{type(e).__name__}",
                                      f"{'disable' if op == 'D' else 'enable'}({cur!r}) raised {type(e).__name__}: {str(e)[:80]}", w)
                        ok = False
                        break
                    log.append(op)
                    run.count("history_steps")
                    if isinstance(cur, bytes):
                        run.count("bytes_steps")
                    got = nstr(got)             # (a normal hash given as bytes comes back unchanged, as bytes)
                    if disabled == "unix_disabled":
                        want = model.disable(mcur) if op == "D" else model.enable(mcur)
                        if want is ValueError:
                            if raised != "ValueError":
                                run.violation(f"C18|{disabled}|enable-without-original-did-not-raise", f"enable({cur!r}) returned {got!r}; nothing is embedded, ValueError expected", w)
                                ok = False
                                break
                            continue          # state unchanged
                        if raised:
                            run.violation(f"C18|{disabled}|{'disable' if op == 'D' else 'enable'}-refused|{okind if step == 0 else 'later-step'}",
                                          f"{'disable' if op == 'D' else 'enable'}({cur!r}) raised ValueError; the model gives {want!r}", w,
                                          repro=f"from passlib.context import CryptContext\nc=CryptContext({schemes!r})\nprint(c.{'disable' if op == 'D' else 'enable'}({cur!r}))")
                            ok = False
                            break
                        if got != want:
                            run.violation(f"C18|{disabled}|{'disable' if op == 'D' else 'enable'}-result", f"{'disable' if op == 'D' else 'enable'}({cur!r}) = {got!r}, expected {want!r}", w)
                            ok = False
                            break
                        cur = mcur = got
                        exp_dis = is_disabled_form(cur)
                    else:
                        # django_disabled: disable() gives a fresh '!'+random string, enable() of it always raises; enable(normal) is the identity
                        if op == "D":
                            if raised or not isinstance(got, str) or not got.startswith("!") or len(got) < 10:
                                run.violation(f"C18|{disabled}|disable-result", f"disable({cur!r}) -> {got!r} ({raised})", w)
                                ok = False
                                break
                            cur = got
                            exp_dis = True
                        else:
                            if is_disabled_form(nstr(cur)):
                                if raised != "ValueError":
                                    run.violation(f"C18|{disabled}|enable-without-original-did-not-raise", f"enable({cur!r}) returned {got!r}", w)
                                    ok = False
                                    break
                                continue
                            if raised or got != nstr(cur):
                                run.violation(f"C18|{disabled}|enable-normal-hash-changed", f"enable({cur!r}) -> {got!r} ({raised})", w)
                                ok = False
                                break
                            cur = nstr(cur)
                            exp_dis = False
                    if not observe(run, ctx, cur, disabled, exp_dis, w, [opw] if opw else []):
                        ok = False
                        break
                    # an enabled original verifies its password again
                    if not exp_dis and opw and cur and not is_disabled_form(cur):
                        if ctx.verify(opw, cur) is not True:
                            run.violation(f"C18|{disabled}|restored-hash-does-not-verify", f"restored hash {cur!r} does not verify the original password", w)
                            ok = False
                            break
                run.evaluations += 1
                if not ok:
                    break
            run.distinct.add(f"{disabled}|{marker}|pos{pos}/{len(schemes)}|default={default}|{okind}")
        run.count(f"layouts:{disabled}")
        if len(run.samples) < 12:
            run.samples.append(dict(schemes=schemes, disabled_hasher=disabled, marker=marker, originals=[o[0] for o in originals], sequences=len(seqs), depth=depth,
                                    example=dict(disable_of_hash=ctx.disable(originals[-1][1] if originals[-1][1] else None))))


def dummy(run):
    """verify(pw, None) is False and costs one verification by the default scheme - also after reconfiguration"""
    from passlib.context import CryptContext
    import passlib.hash as PH
    rng = run.rng("dummy")
    for i in range(30 if run.tier == "quick" else 3000):
        base1, base2 = rng.sample([PH.md5_crypt, PH.sha256_crypt, PH.des_crypt, PH.ldap_salted_sha1, PH.sha1_crypt], 2)
        c1, calls1 = make_counting(base1)
        c2, calls2 = make_counting(base2)
        extra = rng.choice([[], ["unix_disabled"], ["plaintext"]])
        kw = {}
        for b in (base1, base2):
            if b.name in ("sha256_crypt", "sha1_crypt"):
                kw[f"{b.name}__max_rounds"] = 1200
        ctx = CryptContext(schemes=[c1] + extra, **{k: v for k, v in kw.items() if k.startswith(base1.name)})
        w = dict(first_default=base1.name, second_default=base2.name, extra=extra)
        for rnd, (calls, label) in enumerate(((calls1, "initial"),)):
            for op in ("verify", "verify_and_update"):
                before = calls["verify"]
                try:
                    r = ctx.verify(rng.choice(["pw", "", b"x"]), None) if op == "verify" else ctx.verify_and_update("pw", None)
                except Exception as e:
                    run.violation(f"C18|none-hash|{op}-raises|{type(e).__name__}", f"{op}(pw, None) raised {type(e).__name__}: {e}", w)
                    continue
                run.case(("none-hash", op, label, base1.name), dict(w, operation=op, result=str(r), dummy_verifications=calls["verify"] - before))
                run.count("none_hash_probes")
                if r not in (False, (False, None)):
                    run.violation(f"C18|none-hash|{op}-not-false", f"{op}(pw, None) returned {r!r}", w)
                if calls["verify"] - before < 1:
                    run.violation(f"C18|none-hash|{op}-no-dummy-verification", f"{op}(pw, None) did not run a dummy verification on the default scheme", w)
        # reconfigure: the old default scheme disappears; the dummy verification must follow
        how = rng.choice(["load", "update"])
        new_kw = dict(schemes=[c2] + extra, **{k: v for k, v in kw.items() if k.startswith(base2.name)})
        try:
            (ctx.load(new_kw) if how == "load" else ctx.update(**new_kw))
        except Exception as e:
            run.violation(f"C18|none-hash|reconfigure-raises|{type(e).__name__}", f"{how} raised {e}", w)
            continue
        for op in ("verify", "verify_and_update"):
            b1, b2 = calls1["verify"], calls2["verify"]
            try:
                r = ctx.verify("pw", None) if op == "verify" else ctx.verify_and_update("pw", None)
            except Exception as e:
                run.violation(f"C18|none-hash|after-reconfiguration|{op}-raises|{type(e).__name__}",
                              f"after {how}() to a scheme list without the old default, {op}(pw, None) raised {type(e).__name__}: {str(e)[:80]}", dict(w, how=how))
                continue
            run.case(("none-hash", op, "after-" + how, base2.name), dict(w, how=how, operation=op, result=str(r)))
            run.count("none_hash_probes")
            if r not in (False, (False, None)):
                run.violation(f"C18|none-hash|after-reconfiguration|{op}-not-false", f"{op}(pw, None) returned {r!r}", w)
            if calls2["verify"] - b2 < 1:
                run.violation(f"C18|none-hash|after-reconfiguration|{op}-dummy-on-stale-scheme",
                              f"after {how}(), {op}(pw, None) ran {calls1['verify'] - b1} verification(s) on the OLD default scheme and {calls2['verify'] - b2} on the new one", dict(w, how=how))


def none_hash_entry_points(run):
    """verify(pw, None) through every entry point and default-scheme kind: default schemes that need a context keyword
    (user / realm), the deprecated scheme= argument, categories, the keyword given or not"""
    from passlib.context import CryptContext
    for default in ("postgres_md5", "oracle10", "msdcc", "msdcc2", "htdigest", "cisco_pix", "cisco_asa", "lmhash", "md5_crypt", "ldap_md5", "plaintext"):
        for extra in ([], ["md5_crypt"], ["unix_disabled"]):
            schemes = [default] + [e for e in extra if e != default]
            if default == "plaintext":
                schemes = schemes[::-1] if len(schemes) > 1 else schemes
            try:
                ctx = CryptContext(schemes=schemes, default=default, admin__context__default=schemes[-1])
            except Exception as e:
                run.violation(f"C18|none-hash|context-refused|{type(e).__name__}", f"context {schemes} refused: {e}", dict(schemes=schemes))
                continue
            ck = sorted(ctx.context_kwds)
            variants = [("plain", {}), ("category", dict(category="admin")), ("unknown-category", dict(category="nosuch"))]
            if "user" in ck:
                variants += [("user-keyword", dict(user="someone")), ("user-and-category", dict(user="someone", category="admin"))]
            if "realm" in ck:
                variants.append(("user-and-realm", dict(user="someone", realm="r")))
            variants.append(("deprecated-scheme-argument", dict(scheme=default)))
            for label, kw in variants:
                for op in ("verify", "verify_and_update"):
                    w = dict(schemes=schemes, default=default, operation=op, arguments=kw)
                    try:
                        r = ctx.verify("pw", None, **kw) if op == "verify" else ctx.verify_and_update("pw", None, **kw)
                    except Exception as e:
                        run.violation(f"C18|none-hash|{default}|{label}|{op}-raises|{type(e).__name__}", f"{op}('pw', None, {kw}) with default scheme {default} raised {type(e).__name__}: {str(e)[:80]}", w,
                                      repro=f"from passlib.context import CryptContext\nc=CryptContext({schemes!r}, default={default!r})\nprint(c.{op}('pw', None, **{kw!r}))")
                        continue
                    run.count("none_hash_entry_points")
                    run.case(("none-hash-entry", default, label, op), dict(w, result=str(r)))
                    if r not in (False, (False, None)):
                        run.violation(f"C18|none-hash|{default}|{label}|{op}-not-false", f"{op}('pw', None, {kw}) returned {r!r}", w)


def both_disabled(run):
    """a context listing both disabled-account hashers: the one listed first does the disabling, and it is the one
    that recognises the result (so that what disable() makes, enable() can treat consistently)"""
    from passlib.context import CryptContext
    import passlib.hash as PH
    orig = PH.md5_crypt.hash(PW)
    for order in (["md5_crypt", "unix_disabled", "django_disabled"], ["md5_crypt", "django_disabled", "unix_disabled"],
                  ["unix_disabled", "md5_crypt", "django_disabled"], ["django_disabled", "unix_disabled", "md5_crypt"]):
        first = next(s_ for s_ in order if s_.endswith("_disabled"))
        ctx = CryptContext(schemes=order, default="md5_crypt")
        for label, arg in (("with-hash", orig), ("bare", None)):
            w = dict(schemes=order, first_disabled_hasher=first, original_kind=label)
            try:
                dis = ctx.disable(arg) if arg is not None else ctx.disable()
                ident = ctx.identify(dis)
                try:
                    back = ctx.enable(dis)
                except ValueError:
                    back = ValueError
                v = ctx.verify(PW, dis)
            except Exception as e:
                run.violation(f"C18|both-disabled-hashers|raises|{type(e).__name__}", f"context {order}: disable/enable raised {type(e).__name__}: {str(e)[:80]}", w)
                continue
            run.count("both_disabled_cases")
            run.case(("both-disabled", first, label, order.index(first)), dict(w, disabled=dis))
            # a unix-style locked string ('*' is claimed by unix_disabled only; '!' by whichever disabled hasher is listed first)
            for marker in "*!":
                locked = marker + orig
                owner = "unix_disabled" if marker == "*" else first
                try:
                    got_owner = ctx.identify(locked)
                    try:
                        got_back = ctx.enable(locked)
                    except ValueError:
                        got_back = ValueError
                    lv = ctx.verify(PW, locked)
                except Exception as e:
                    run.violation(f"C18|both-disabled-hashers|locked-string|{type(e).__name__}", f"context {order}: handling {marker}+hash raised {type(e).__name__}: {str(e)[:80]}", w)
                    continue
                run.count("both_disabled_locked_strings")
                exp_back = orig if owner == "unix_disabled" else ValueError
                if got_owner != owner or lv is not False or got_back != exp_back:
                    run.violation(f"C18|both-disabled-hashers|locked-string|{marker}-style", f"context {order}: {marker}+hash is identified as {got_owner!r} (expected {owner}), verify={lv}, enable -> {'ValueError' if got_back is ValueError else got_back[:16]!r} (expected {'the original hash' if exp_back is not ValueError else 'ValueError'})", w)
            want_back = orig if (first == "unix_disabled" and arg is not None) else ValueError
            if ident != first or v is not False or ctx.is_enabled(dis) is not False or back != want_back:
                run.violation(f"C18|both-disabled-hashers|{first}-first|{label}",
                              f"context {order}: disable({label}) -> {dis[:20]!r}.. identified as {ident!r} (the first disabled hasher is {first}), verify={v}, enable -> {back if back is ValueError else back[:20]!r}; expected {'the original hash' if want_back is not ValueError else 'ValueError'}", w)


def reconfigured_none_hash(run):
    """verify(pw, None) stays False across in-place reconfigurations that add or remove context-keyword schemes"""
    from passlib.context import CryptContext
    seq = [["md5_crypt"], ["postgres_md5"], ["md5_crypt", "postgres_md5"], ["htdigest"], ["sha256_crypt"], ["msdcc2", "md5_crypt"], ["md5_crypt"]]
    for how in ("update", "load"):
        ctx = CryptContext(schemes=seq[0])
        for step, schemes in enumerate(seq):
            try:
                if step:
                    (ctx.update(schemes=schemes, default=schemes[0]) if how == "update" else ctx.load(dict(schemes=schemes)))
                res = (ctx.verify("pw", None), ctx.verify_and_update("pw", None), ctx.dummy_verify())
            except Exception as e:
                run.violation(f"C18|none-hash|after-reconfiguration|{how}|{type(e).__name__}", f"after {how} to {schemes} (step {step}) verify(pw, None) raised {type(e).__name__}: {str(e)[:80]}", dict(sequence=seq[:step + 1], how=how))
                break
            run.count("reconfigured_none_hash_steps")
            run.case(("none-hash-reconfigured", how, step), None)
            if res != (False, (False, None), False):
                run.violation(f"C18|none-hash|after-reconfiguration|{how}|not-false", f"after {how} to {schemes}: {res}", dict(sequence=seq[:step + 1], how=how))
                break


def marker_isolation(run):
    """a context's marker is its own: building and using other contexts (or hashers) with other markers does not change what it writes or restores"""
    from passlib.context import CryptContext
    import passlib.hash as PH
    orig = PH.md5_crypt.hash(PW)
    for mine, others in (("*LK*", ["!", "*", "*NP*"]), ("!", ["*LK*", "*"]), ("*", ["!!", "*LK*"])):
        kw = {"unix_disabled__marker": mine} if mine != "!" else {}
        ctx = CryptContext(schemes=["md5_crypt", "unix_disabled"], **kw)
        before = (ctx.disable(orig), ctx.disable(), ctx.enable(ctx.disable(orig)))
        for o in others:
            try:
                other = CryptContext(schemes=["md5_crypt", "unix_disabled"], unix_disabled__marker=o)
                other.enable(other.disable(orig))
                PH.unix_disabled.using(marker=o).hash("x")
            except ValueError:
                continue
        try:
            after = (ctx.disable(orig), ctx.disable(), ctx.enable(before[0]))
            again = ctx.disable(before[0])
            try:
                bare = ctx.enable(mine)
            except ValueError:
                bare = ValueError
        except Exception as e:
            run.violation(f"C18|marker-isolation|raises|{type(e).__name__}", f"context with marker {mine!r}: {type(e).__name__}: {str(e)[:80]} after other contexts used {others}", dict(marker=mine, others=others))
            continue
        run.count("marker_isolation_cases")
        run.case(("marker-isolation", mine), dict(marker=mine, others=others))
        if after != before or before != (mine + orig, mine, orig) or again != before[0] or bare is not ValueError or PH.unix_disabled.default_marker not in ("!", "*"):
            run.violation("C18|marker-isolation|changed", f"context with marker {mine!r}: disable/enable gave {before} before and {after} after other contexts used markers {others} (disable again -> {again!r}, enable(bare marker) -> {bare!r})",
                          dict(marker=mine, others=others))


def undecodable_bytes(run):
    """a stored value that is not valid UTF-8 (a latin-1 plaintext record) under contexts that list a disabled hasher first"""
    from passlib.context import CryptContext
    for dis in ("django_disabled", "unix_disabled"):
        ctx = CryptContext(schemes=[dis, "plaintext"], default="plaintext")
        for stored, expect_enabled in ((b"caf\xe9", True), (b"!caf\xe9", False), (b"\xff\xfe", True)):
            w = dict(schemes=[dis, "plaintext"], stored=repr(stored))
            try:
                en = ctx.is_enabled(stored)
                v = ctx.verify("x", stored) if not expect_enabled else None
            except Exception as e:
                # (these values are recognisable: a '!' marker, or a plaintext record of the catch-all scheme)
                run.violation(f"C18|{dis}|undecodable-bytes|{type(e).__name__}", f"{type(e).__name__} for the stored value {stored!r}: {str(e)[:60]}", w)
                continue
            run.count("undecodable_bytes_cases")
            if en is not expect_enabled or v not in (None, False):
                run.violation(f"C18|{dis}|undecodable-bytes|wrong-answer", f"stored {stored!r}: is_enabled={en} (expected {expect_enabled}), verify={v}", w)


def long_originals(run):
    """an original hash longer than the library-wide password size limit is still just a hash: it can be disabled, stays
    disabled, and (unix_disabled) comes back intact"""
    import os
    from passlib.context import CryptContext
    import passlib.hash as PH
    limit = int(os.environ.get("PASSLIB_MAX_PASSWORD_SIZE") or 4096)
    big = PH.fshp.using(rounds=1, salt=b"s" * (limit + 100)).hash(PW)        # (fshp salts have no upper size limit)
    normal = PH.fshp.using(rounds=1).hash(PW)
    for disabled in ("unix_disabled", "django_disabled"):
        ctx = CryptContext(schemes=["fshp", disabled], fshp__default_rounds=1)
        for label, orig in (("longer-than-password-limit", big), ("ordinary", normal)):
            if len(orig) <= limit and label != "ordinary":
                continue
            w = dict(disabled_hasher=disabled, original_kind=label, original_length=len(orig), password_size_limit=limit)
            try:
                dis = ctx.disable(orig)
                again = ctx.disable(dis)
                en = ctx.is_enabled(dis)
                v = ctx.verify(PW, dis)
            except Exception as e:
                run.violation(f"C18|{disabled}|long-original|{type(e).__name__}", f"disabling a {len(orig)}-character hash (password size limit {limit}) raised {type(e).__name__}: {str(e)[:80]}", w)
                continue
            run.count("long_original_cases")
            run.case(("long-original", disabled, label, limit), w)
            if en is not False or v is not False or ctx.is_enabled(again) is not False:
                run.violation(f"C18|{disabled}|long-original|not-disabled", f"disabled form of a {len(orig)}-character hash: is_enabled={en} verify={v}", w)
            if disabled == "unix_disabled" and (ctx.enable(dis) != orig or ctx.enable(again) != orig):
                run.violation(f"C18|{disabled}|long-original|not-restored", f"enable(disable(h)) != h for a {len(orig)}-character hash", w)


def cross_marker(run):
    """strings carrying the other marker style than the configured one are still disabled and can be restored"""
    from passlib.context import CryptContext
    for cfg_marker in "!*":
        kw = {"unix_disabled__marker": cfg_marker} if cfg_marker != "!" else {}
        ctx = CryptContext(schemes=["md5_crypt", "unix_disabled"], **kw)
        hs = ctx.hash(PW)
        for other in "!*":
            s = other + hs
            w = dict(configured_marker=cfg_marker, string_marker=other, string=s)
            if not observe(run, ctx, s, "unix_disabled", True, w, [PW]):
                continue
            try:
                back = ctx.enable(s)
                again = ctx.disable(s)
            except Exception as e:
                run.violation(f"C18|unix_disabled|other-marker-style|{type(e).__name__}", f"context with marker {cfg_marker!r}: enable/disable of {s!r} raised {type(e).__name__}: {e}", w)
                continue
            run.case(("cross-marker", cfg_marker, other), dict(w, enabled=back, disabled_again=again))
            run.count("cross_marker")
            if back != hs or again != cfg_marker + hs:
                run.violation("C18|unix_disabled|other-marker-style|wrong-result", f"enable({s!r}) = {back!r}, disable({s!r}) = {again!r}", w)


def body(run):
    shards = []
    for disabled, marker in (("unix_disabled", "!"), ("unix_disabled", "*"), ("unix_disabled", "*LK*"), ("django_disabled", "!")):
        for p in range(4):
            shards.append(dict(disabled=disabled, marker=marker, part=p, parts=4))
    run.parallel("checks.c18", "histories", shards, timeout=900 if run.tier == "quick" else 3600)
    dummy(run)
    cross_marker(run)
    long_originals(run)
    none_hash_entry_points(run)
    both_disabled(run)
    run.require("both_disabled_cases", 8)
    run.require("both_disabled_locked_strings", 8)
    reconfigured_none_hash(run)
    run.require("reconfigured_none_hash_steps", 10)
    marker_isolation(run)
    run.require("marker_isolation_cases", 3)
    undecodable_bytes(run)
    run.require("none_hash_entry_points", 200)
    # the same with a lowered library-wide size limit (environment switch read at import): ordinary hashes are then "long"
    run.parallel("checks.c18", "long_originals", [dict()], timeout=600, env={"PASSLIB_MAX_PASSWORD_SIZE": "64"})
    run.parallel("checks.c18", "histories", [dict(disabled=d, marker="!", part=0, parts=8) for d in ("unix_disabled", "django_disabled")], timeout=900, env={"PASSLIB_MAX_PASSWORD_SIZE": "64"})
    run.require("long_original_cases", 6)
    run.exhaustive = True
    run.extra["exhaustive_scope"] = "all disable/enable sequences up to depth 4 (quick) / 7 (thorough) from every original kind, for every position of the disabled hasher in lists of 1-3 real schemes"
    run.require("history_steps", 5000)
    run.require("disabled_verifies", 10000)
    run.require("none_hash_probes", 100)
    run.require("cross_marker", 4)
    for d in ("unix_disabled", "django_disabled"):
        run.require(f"layouts:{d}", 4)
    run.assumptions += ["string model of unix_disabled: a disabled string is the marker followed by the optional original; disabling again keeps the original and normalises the marker; "
                        "enable strips one marker and needs a non-empty remainder",
                        "django_disabled never embeds the original (enable always raises ValueError), as documented"]


if __name__ == "__main__":
    main("C18", "exploration", RULE, body)
