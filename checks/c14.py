"""C14 - token matching honours the window and never accepts a code twice.

(1) Executable model of match() (vlib restatement of the property statement, with its own HOTP) compared with the real
    TOTP.match() EXHAUSTIVELY over a small cube: period x window x skew x last-counter offset x every time in a range x
    codes of every counter in and around the search range, plus colliding and malformed codes; and over random large values.
(2) Online history monitor: over sequences of attempts in which the application feeds back the counter of each accepted
    match, the accepted counters must strictly increase (checked at every step, previous value in hand); replayed,
    stale, future and colliding codes are mixed in."""
import datetime

from vlib import hashers as H
from vlib.run import main
from checks.c13 import ref_hotp

RULE = ("case = one match() call (period, window, skew, last counter, time, submitted code) compared with the model, or one step "
        "of an attempt history; distinct = distinct (period, window, skew, last-counter relation, outcome) tuples and distinct "
        "history shapes; the small parameter cube is enumerated completely")


def model(key, alg, digits, period, token, t, window, skew, last):
    """-> ('accept', counter) | ('used',) | ('invalid',) | ('malformed',)"""
    if isinstance(token, int):
        tok = "%0*d" % (digits, token)
    else:
        if isinstance(token, bytes):
            try:
                token = token.decode("utf-8")
            except UnicodeDecodeError:
                return ("malformed",)
        tok = "".join(ch for ch in token if not (ch.isspace() or ch in "-="))        # white space (any), dashes and '=' are decoration
        if not tok.isdigit():
            return ("malformed",)
    if len(tok) != digits:
        return ("malformed",)
    ct = t + skew
    lc = -1 if last is None else last
    start = max(lc, (ct - window) // period, 0)
    end = (ct + window) // period
    for c in range(start, end + 1):
        if ref_hotp(key, c, digits, alg) == tok:
            return ("used",) if c == lc else ("accept", c)
    return ("invalid",)


def real(otp, token, t, window, skew, last):
    """t may be a number or a date-time"""
    import passlib.exc as X
    try:
        m = otp.match(token, t, window=window, skew=skew, last_counter=last)
        return ("accept", m.counter), m
    except X.UsedTokenError:
        return ("used",), None
    except X.MalformedTokenError:
        return ("malformed",), None
    except X.InvalidTokenError:
        return ("invalid",), None


def compare(run, otp, key, alg, digits, period, token, t, window, skew, last, label, time_arg=None):
    want = model(key, alg, digits, period, token, t, window, skew, last)
    targ = t if time_arg is None else time_arg
    w = dict(key=key, alg=alg, digits=digits, period=period, token=token, time=t, window=window, skew=skew, last_counter=last, model=want)
    rp = (f"import warnings; warnings.simplefilter('ignore')\nfrom passlib.totp import TOTP\nt=TOTP(key={key!r}, format='raw', alg={alg!r}, digits={digits}, period={period})\n"
          f"import datetime\nprint(t.match({token!r}, {targ!r}, window={window}, skew={skew}, last_counter={last}))")
    if time_arg is not None:
        w["time_argument"] = repr(time_arg)
    try:
        got, m = real(otp, token, targ, window, skew, last)
        if (t + window + (last or 0)) % 5 == 0:
            # the class-level entry point TOTP.verify(token, source, ...) decides exactly like match() on the loaded object
            import passlib.exc as X
            from passlib.totp import TOTP
            src = [otp, otp.to_json(), otp.to_dict(), otp.to_uri(label="x")][(t + window) % 4]
            try:
                m2 = TOTP.verify(token, src, time=targ, window=window, skew=skew, last_counter=last)
                got2 = ("accept", m2.counter)
            except X.UsedTokenError:
                got2 = ("used",)
            except X.MalformedTokenError:
                got2 = ("malformed",)
            except X.InvalidTokenError:
                got2 = ("invalid",)
            run.count("class_level_verify")
            if got2 != got:
                run.violation(f"C14|verify-entry-point|match-{got[0]}|verify-{got2[0]}", f"TOTP.verify(token, <{type(src).__name__} source>, ...) gives {got2} where match() on the same object gives {got}",
                              dict(w, source_kind=type(src).__name__), rp)
    except Exception as e:
        run.violation(f"C14|match|raises|{type(e).__name__}", f"match() raised {type(e).__name__}: {str(e)[:100]}; the model says {want}", w, rp)
        return None
    run.trivial()
    run.count(f"outcome:{want[0]}")
    if label == "cube":
        run.distinct.add(f"cube|p{period}|w{window}|s{skew}|{'none' if last is None else 'last'}|{want[0]}")
    if got != want:
        rel = "none" if last is None else "zero" if last == 0 else "positive"
        run.violation(f"C14|match|{label}|model-{want[0]}|got-{got[0]}",
                      f"match(code, time={t}, window={window}, skew={skew}, last_counter={last}) with period {period} gives {got}, the window rule gives {want}", dict(w, got=got), rp)
    elif m is not None:
        if m.time != t or m.expected_counter != t // period or m.skipped != m.counter - t // period or m.expire_time != (m.counter + 1) * period \
                or m.cache_seconds != period + window or m.cache_time != (m.counter + 1) * period + window:
            run.violation("C14|match|result-attributes", f"TotpMatch attributes inconsistent: counter={m.counter} time={m.time} skipped={m.skipped} expire={m.expire_time}", w, rp)
    return got


def cube(run, periods, keyidx):
    from passlib.totp import TOTP
    import warnings
    warnings.simplefilter("ignore")
    rng = run.rng(f"cube{keyidx}")
    key = H.pw_bytes(rng, 20, "binary")
    alg, digits = ("sha1", 6) if keyidx % 2 == 0 else ("sha256", 8)
    windows = range(0, 14) if run.tier == "thorough" else [0, 1, 2, 3, 5, 6, 7, 10, 13]
    skews = range(-7, 8) if run.tier == "thorough" else [-7, -3, -1, 0, 1, 2, 6]
    times = range(0, 81) if run.tier == "thorough" else list(range(0, 20)) + [23, 24, 29, 30, 31, 35, 36, 59, 60, 61, 79, 80]
    for period in periods:
        otp = TOTP(key=key, format="raw", alg=alg, digits=digits, period=period)
        codes = {c: ref_hotp(key, c, digits, alg) for c in range(0, 120)}
        n = 0
        for window in windows:
            for skew in skews:
                for t in times:
                    ct = t + skew
                    lo, hi = max((ct - window) // period, 0), max((ct + window) // period, 0)
                    cur = max(t // period, 0)
                    for loff in (None, -2, -1, 0, 1, 2):
                        last = None if loff is None else cur + loff
                        if last is not None and last < 0:
                            continue
                        for c in range(max(lo - 3, 0), hi + 4):
                            compare(run, otp, key, alg, digits, period, codes[c] if (c + t) % 2 else int(codes[c]), t, window, skew, last, "cube")
                            n += 1
                        # a code that matches nothing, and malformed codes
                        compare(run, otp, key, alg, digits, period, "0" * digits if "0" * digits not in codes.values() else "1" * digits, t, window, skew, last, "cube")
                        if (t + window) % 7 == 0:
                            good = codes[min(max(cur, lo), hi)]
                            for bad in ("12345", "1234567" if digits == 6 else "123456789", "12a456"[:digits].ljust(digits, "x"), "", " ", codes[cur][:-1], codes[cur] + "0",
                                        good + "x", good[:3] + "." + good[3:], "+" + good, good[:1] + "a" + good[1:], (good[:2] + "_" + good[2:]).encode(), good + "\u0661", "\uff11" + good[1:]):
                                compare(run, otp, key, alg, digits, period, bad, t, window, skew, last, "malformed")
                            # decorated spellings of a valid code
                            code = codes[min(max(cur, lo), hi)]
                            for dec in (code[:3] + " " + code[3:], code[:3] + "-" + code[3:], " " + code + " ", code.encode(),
                                        (code[:3] + " " + code[3:]).encode(), (code[:2] + "-" + code[2:]).encode(), (code + "\n").encode(), ("\t" + code).encode(),
                                        code[:3] + "\u00a0" + code[3:], code[:2] + "\u2009" + code[2:], (code[:3] + "\u3000" + code[3:]).encode("utf-8"), code + "\u202f"):
                                compare(run, otp, key, alg, digits, period, dec, t, window, skew, last, "decorated")
                        n += 1
        run.evaluations += n
        run.distinct.add(f"cube|key{keyidx}|period{period}")
        for wdw in windows:
            run.distinct.add(f"cube|period{period}|window{wdw}")
        run.count("cube_matches", n)
        if len(run.samples) < 12:
            run.samples.append(dict(cube=dict(period=period, windows=list(windows), skews=list(skews), times=[times[0], times[-1]], key=key.hex(), alg=alg, digits=digits), matches=n))


def randoms(run, part):
    from passlib.totp import TOTP
    import warnings
    warnings.simplefilter("ignore")
    rng = run.rng(f"rand{part}")
    import os
    import time as _time
    if os.environ.get("TZ") and hasattr(_time, "tzset"):
        _time.tzset()
        run.count("random_shards_with_process_timezone")
    n = 1500 if run.tier == "quick" else 40000
    for i in range(n):
        alg = rng.choice(["sha1", "sha256", "sha512"])
        digits = rng.choice([6, 7, 8, 10])
        period = rng.choice([1, 7, 30, 30, 60, rng.randint(1, 3600)])
        key = H.pw_bytes(rng, rng.choice([10, 20, 32, 64]), "binary")
        otp = TOTP(key=key, format="raw", alg=alg, digits=digits, period=period)
        t = rng.choice([rng.randrange(0, 2 ** 31), rng.randrange(2 ** 31, 2 ** 40), rng.randrange(0, 5 * period), rng.randrange(0, 5 * period),
                        rng.choice([2 ** 53, 2 ** 54, 2 ** 60]) // period * period + rng.choice([0, 0, period - 1, 1]), rng.randrange(2 ** 53, 2 ** 62)])
        window = rng.choice([0, 1, period - 1, period, period + 1, 2 * period, rng.randint(0, 5 * period), 45 if period == 30 else 10])
        window = max(0, min(window, 40 * period))
        skew = rng.choice([0, 0, rng.randint(-3 * period, 3 * period)])
        cur = t // period
        c = cur + rng.randint(-(window // period) - 3, (window // period) + 3)
        c = max(c, 0)
        last = rng.choice([None, None, c, c - 1, c + 1, cur, max(cur - 3, 0), 0])
        if last is not None and last < 0:
            last = 0
        token = ref_hotp(key, c, digits, alg)
        time_arg = None
        label = "random"
        if i % 3 == 0 and t < 250000000000:
            # the attempt time as a date-time (aware with any offset, or naive = UTC) or a float
            form = rng.choice(["aware", "aware", "naive", "float"])
            if form == "aware":
                tz = datetime.timezone(datetime.timedelta(minutes=rng.choice([0, 60, -60, 330, -480, 840, -720, 1, -1, rng.randint(-1439, 1439)])))
                time_arg = datetime.datetime.fromtimestamp(t, tz)
            elif form == "naive":
                time_arg = datetime.datetime(1970, 1, 1) + datetime.timedelta(seconds=t)
            else:
                time_arg = t + rng.random() * 0.99
            label = "random-" + form
            run.count("time_form:" + form)
        if i % 4 == 1:
            token = rng.choice([token.encode(), int(token), (token[:3] + " " + token[3:]).encode(), token[:3] + "-" + token[3:]])
        got = compare(run, otp, key, alg, digits, period, token, t, window, skew, last, label, time_arg)
        run.evaluations += 1
        if got is not None:
            run.distinct.add(f"random|{'w%p' if window % period else 'w=kp'}|{got[0]}|{'none' if last is None else 'zero' if last == 0 else 'pos'}|{alg}")
    run.count("random_matches", n)
    # colliding codes: period 1, a window wide enough that two counters in range produce the same code
    found = 0
    for attempt in range(40 if run.tier == "quick" else 400):
        key = H.pw_bytes(rng, 20, "binary")
        otp = TOTP(key=key, format="raw", digits=6, period=1)
        t0 = rng.randrange(2000, 10 ** 6)
        window = 700
        seen = {}
        pair = None
        for c in range(t0 - window, t0 + window + 1):
            code = ref_hotp(key, c, 6, "sha1")
            if code in seen:
                pair = (seen[code], c, code)
                break
            seen[code] = c
        if not pair:
            continue
        c1, c2, code = pair
        found += 1
        for last in (None, c1 - 1, c1, c1 + 1, c2 - 1, c2, 0):
            compare(run, otp, key, "sha1", 6, 1, code, t0, window, 0, last, "colliding")
            run.evaluations += 1
            # the same with the attempt made exactly at the later of the two counters (the "expected" one), and one step after the earlier one
            for tt, ww in ((c2, c2 - c1 + 3), (c1 + 1, c2 - c1 + 3), (c2, c2 - c1)):
                compare(run, otp, key, "sha1", 6, 1, code, tt, ww, 0, last, "colliding")
                run.evaluations += 1
        run.distinct.add("colliding-codes")
        if len(run.samples) < 12 and found == 1:
            run.samples.append(dict(colliding=dict(key=key.hex(), counters=[c1, c2], code=code, time=t0, window=window)))
    run.count("colliding_cases", found)


def histories(run, part):
    """online monitor: accepted counters strictly increase when the application feeds them back"""
    from passlib.totp import TOTP
    import passlib.exc as X
    import warnings
    warnings.simplefilter("ignore")
    rng = run.rng(f"hist{part}")
    n = 120 if run.tier == "quick" else 3000
    for h in range(n):
        period = rng.choice([1, 5, 30])
        digits = rng.choice([6, 8])
        key = H.pw_bytes(rng, 20, "binary")
        otp = TOTP(key=key, format="raw", digits=digits, period=period)
        window = rng.choice([0, period, 2 * period, period // 2 + 1, 3 * period + 1])
        t = rng.choice([0, rng.randrange(0, 3 * period), rng.randrange(10 ** 6, 10 ** 9)])
        last = None
        accepted = []
        log = []
        old_keys = []
        for step in range(50):
            t += rng.choice([0, 0, 1, period // 2, period, period + 1, 3 * period])
            cur = t // period
            if step and rng.random() < 0.1:
                # the application rotates the secret on the object it already used: from now on only the new key's codes count
                old_keys.append(key)
                key = H.pw_bytes(rng, rng.choice([10, 20, 32]), "binary")
                otp.key = key
                run.count("rekeyed_in_history")
            kind = rng.choice(["current", "current", "replay", "stale", "future", "previous", "garbage", "next"] + (["old-key"] * 2 if old_keys else []))
            if kind == "replay" and accepted:
                c = rng.choice(accepted)
            elif kind == "stale":
                c = max(cur - rng.randint(2, 6), 0)
            elif kind == "future":
                c = cur + rng.randint(2, 6)
            elif kind == "previous":
                c = max(cur - 1, 0)
            elif kind == "next":
                c = cur + 1
            else:
                c = cur
            token = ref_hotp(old_keys[-1] if kind == "old-key" else key, c, digits, "sha1") if kind != "garbage" else "0" * digits
            want = model(key, "sha1", digits, period, token, t, window, 0, last)
            try:
                got, m = real(otp, token, t, window, 0, last)
            except Exception as e:
                run.violation(f"C14|history|raises|{type(e).__name__}", f"match() raised {type(e).__name__} in a history", dict(log=log[-6:]))
                break
            log.append(dict(time=t, kind=kind, code_counter=c, last_counter=last, outcome=got))
            run.trivial()
            run.count("history_steps")
            if got != want:
                run.violation(f"C14|history|step|model-{want[0]}|got-{got[0]}", f"history step {step}: {got} but the window rule gives {want}",
                              dict(key=key, period=period, digits=digits, window=window, log=log[-8:]))
                break
            if got[0] == "accept":
                # the monitor proper: previous accepted counter in hand
                if last is not None and got[1] <= last:
                    run.violation("C14|history|accepted-counter-not-increasing",
                                  f"accepted counter {got[1]} after {last}: a code was accepted twice / out of order", dict(key=key, period=period, window=window, log=log[-8:]))
                    break
                if got[1] in accepted:
                    run.violation("C14|history|counter-accepted-twice", f"counter {got[1]} accepted twice", dict(key=key, period=period, window=window, log=log[-8:]))
                    break
                accepted.append(got[1])
                last = got[1]            # the application feeds the counter back
        run.case(("history", period, window // max(period, 1), len(accepted) > 3), dict(history=log[:10], accepted_counters=accepted[:12], period=period, window=window))
        run.count("histories")


def body(run):
    shards = [("cube", dict(periods=[p], keyidx=k)) for p in range(1, 7) for k in ((0, 1) if run.tier == "quick" else (0, 1, 2))]
    shards += [("randoms", dict(part=i)) for i in range(8)] + [("histories", dict(part=i)) for i in range(8)]
    by = {}
    for f, a in shards:
        by.setdefault(f, []).append(a)
    for f, al in by.items():
        if f == "randoms":
            # attempt times given as date-times: the process time zone must not matter (POSIX TZ strings, no tzdata needed)
            for tz, sub in (("EST5EDT,M3.2.0,M11.1.0", al[0::2]), ("IST-5:30", al[1::2])):
                run.parallel("checks.c14", f, sub, timeout=1200 if run.tier == "quick" else 7000, env={"TZ": tz})
            continue
        run.parallel("checks.c14", f, al, timeout=1200 if run.tier == "quick" else 7000)
    run.exhaustive = True
    run.extra["exhaustive_scope"] = ("period 1..6 x the listed windows x skews x last-counter offsets {none, current-2..current+2} x the listed times x codes of every counter "
                                     "from 3 below to 3 above the search range (both as text and as integer) plus non-matching, malformed and decorated codes")
    run.require("cube_matches", 300000)
    run.require("random_matches", 5000)
    run.require("history_steps", 20000)
    run.require("rekeyed_in_history", 500)
    run.require("colliding_cases", 5)
    run.require("class_level_verify", 10000)
    for o in ("accept", "used", "invalid", "malformed"):
        run.require(f"outcome:{o}", 500)
    run.assumptions += ["the model restates the window rule of the property statement with its own RFC 4226 HOTP (validated on the RFC vectors in C13)"]


if __name__ == "__main__":
    main("C14", "exploration", RULE, body)
