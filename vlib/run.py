"""Run bookkeeping shared by all checks: tier/seed handling, counters, three-valued verdict,
known-findings classification, replay files, evidence writer, sharding over subprocesses.

Verdicts
  violated     -> stdout line `VIOLATION property=<id> replay=<path>`, exit 1
  held         -> exit 0, only if every declared reach requirement was met
  inconclusive -> stdout line `INCONCLUSIVE property=<id> <reason>`, exit 2 (never a VIOLATION line)
Known findings (known_findings.json, status "known") print `KNOWN-FINDING: property=<id> <what>` and
do not fail the run.  Nothing here ever writes known_findings.json.
"""
from __future__ import annotations

import collections
import fnmatch
import hashlib
import json
import os
import random
import subprocess
import sys
import tempfile
import time
import traceback

ROOT = os.path.dirname(os.path.dirname(os.path.abspath(__file__)))
REPO = os.environ.get("VERIF_REPO", "/repo")
PY = sys.executable
MAX_SAMPLES = 12


def env_tier():
    t = os.environ.get("VERIF_TIER", "quick")
    return t if t in ("quick", "thorough") else "quick"


def env_seed():
    try:
        return int(os.environ.get("VERIF_SEED", "0"))
    except ValueError:
        return 0


def jsonable(x, depth=0):
    """best-effort conversion of witnesses to JSON (bytes -> repr)"""
    if depth > 6:
        return repr(x)
    if isinstance(x, (str, int, float, bool)) or x is None:
        return x
    if isinstance(x, bytes):
        return "bytes:" + repr(x)[1:]
    if isinstance(x, dict):
        return {str(k): jsonable(v, depth + 1) for k, v in x.items()}
    if isinstance(x, (list, tuple, set, frozenset)):
        return [jsonable(v, depth + 1) for v in x]
    return repr(x)


class Run:
    def __init__(self, pid, level="exploration", rule="", child=False):
        self.pid = pid
        self.level = level
        self.rule = rule
        self.child = child
        self.tier = env_tier()
        self.seed = env_seed()
        self.t0 = time.time()
        self.evaluations = 0
        self.distinct = set()
        self.counters = collections.Counter()
        self.samples = []
        self._sample_keys = set()
        self.violations = {}      # mech -> dict(count, what, witness)
        self.inconclusive = []    # reasons that make the whole run inconclusive
        self.notes = []           # host-dependent sub-clauses not exercised (reported, not fatal)
        self.requirements = {}    # counter name -> minimum
        self.extra = {}           # extra coverage keys
        self.assumptions = []
        self.exhaustive = None

    # ------------------------------------------------------------------ recording
    def rng(self, salt=""):
        return random.Random(f"{self.pid}:{self.seed}:{salt}")

    def case(self, key, sample=None, n=1):
        """one oracle evaluation of a case whose class is `key` (non-trivial by the check's rule)"""
        self.evaluations += n
        if key is not None:
            k = key if isinstance(key, str) else "|".join(map(str, key))
            self.distinct.add(k)
            if sample is not None and len(self.samples) < MAX_SAMPLES:
                sk = k.split("|")[0]
                if sk not in self._sample_keys:
                    self._sample_keys.add(sk)
                    self.samples.append(jsonable(sample))

    def trivial(self, n=1):
        """an evaluation that does not count as non-trivial/distinct"""
        self.evaluations += n

    def count(self, name, n=1):
        self.counters[name] += n

    def require(self, name, minimum=1):
        self.requirements[name] = max(minimum, self.requirements.get(name, 0))

    def note(self, text):
        if text not in self.notes:
            self.notes.append(text)

    def set_inconclusive(self, reason):
        if reason not in self.inconclusive:
            self.inconclusive.append(reason)

    def violation(self, mech, what, witness=None, repro=None):
        """record a violation; `mech` is the mechanism key used by the known-findings classifier"""
        v = self.violations.get(mech)
        if v is None:
            v = self.violations[mech] = dict(count=0, what=what, witness=jsonable(witness), repro=repro)
        v["count"] += 1

    # ------------------------------------------------------------------ shards
    def dump(self):
        try:
            from vlib import reach
            self.merge_reach(reach.result())
        except Exception:
            pass
        return dict(reach={f: sorted(v) for f, v in getattr(self, "reach", {}).items()}, evaluations=self.evaluations, distinct=sorted(self.distinct), counters=dict(self.counters),
                    samples=self.samples, violations=self.violations, inconclusive=self.inconclusive,
                    notes=self.notes, extra=self.extra)

    def merge_reach(self, r):
        cur = getattr(self, "reach", None)
        if cur is None:
            cur = self.reach = {}
        for f, lines in (r or {}).items():
            cur.setdefault(f, set()).update(lines)

    def merge(self, d):
        self.merge_reach(d.get("reach"))
        self.evaluations += d["evaluations"]
        self.distinct.update(d["distinct"])
        self.counters.update(d["counters"])
        for s in d["samples"]:
            if len(self.samples) < MAX_SAMPLES:
                self.samples.append(s)
        for mech, v in d["violations"].items():
            if mech in self.violations:
                self.violations[mech]["count"] += v["count"]
            else:
                self.violations[mech] = v
        for r in d["inconclusive"]:
            self.set_inconclusive(r)
        for r in d["notes"]:
            self.note(r)
        for k, v in d.get("extra", {}).items():
            if isinstance(v, (int, float)) and isinstance(self.extra.get(k), (int, float)):
                self.extra[k] += v
            elif isinstance(v, list) and isinstance(self.extra.get(k), list):
                self.extra[k] = sorted(set(map(str, self.extra[k])) | set(map(str, v)))
            elif isinstance(v, dict) and isinstance(self.extra.get(k), dict):
                for kk, vv in v.items():
                    if isinstance(vv, (int, float)) and isinstance(self.extra[k].get(kk), (int, float)):
                        self.extra[k][kk] += vv
                    else:
                        self.extra[k][kk] = vv
            else:
                self.extra[k] = v

    def parallel(self, module, func, arglist, timeout, jobs=None, python_flags=(), env=None):
        """run `module.func(run, **args)` for each args dict in fresh subprocesses and merge the partial runs.
        A shard that dies or exceeds the (generous) watchdog makes the run inconclusive, never violated."""
        jobs = jobs or min(16, os.cpu_count() or 4)
        pending = list(enumerate(arglist))
        running = []
        tmpdir = tempfile.mkdtemp(prefix="verif-shard-")
        e = dict(os.environ)
        e["VERIF_TIER"] = self.tier
        e["VERIF_SEED"] = str(self.seed)
        e.update(env or {})
        try:
            while pending or running:
                while pending and len(running) < jobs:
                    i, args = pending.pop(0)
                    out = os.path.join(tmpdir, f"{i}.json")
                    cmd = [PY, *python_flags, "-m", "vlib.shard", self.pid, module, func, json.dumps(args), out]
                    logf = open(os.path.join(tmpdir, f"{i}.log"), "wb")   # a file, not a pipe: a chatty child must never block
                    p = subprocess.Popen(cmd, cwd=ROOT, env=e, stdout=logf, stderr=subprocess.STDOUT)
                    p._logpath = logf.name
                    logf.close()
                    running.append((p, i, args, out, time.time()))
                time.sleep(0.02)
                for item in list(running):
                    p, i, args, out, st = item
                    rc = p.poll()
                    if rc is None:
                        if time.time() - st > timeout:
                            p.kill()
                            p.wait()
                            running.remove(item)
                            self.set_inconclusive(f"shard {func}{args} exceeded watchdog {timeout}s")
                        continue
                    running.remove(item)
                    try:
                        with open(p._logpath, "rb") as lf:
                            lf.seek(max(0, os.path.getsize(p._logpath) - 3000))
                            txt = lf.read().decode("utf-8", "replace")
                    except OSError:
                        txt = ""
                    if rc != 0 or not os.path.exists(out):
                        self.set_inconclusive(f"shard {func}{args} died rc={rc}: {txt[-600:]}")
                        continue
                    with open(out) as fh:
                        self.merge(json.load(fh))
                    os.unlink(out)
        finally:
            for item in running:
                item[0].kill()
            try:
                for f in os.listdir(tmpdir):
                    os.unlink(os.path.join(tmpdir, f))
                os.rmdir(tmpdir)
            except OSError:
                pass

    # ------------------------------------------------------------------ verdict
    def _known(self):
        path = os.path.join(ROOT, "known_findings.json")
        try:
            with open(path) as fh:
                data = json.load(fh)
        except FileNotFoundError:
            return []
        return [f for f in data.get("findings", []) if f.get("status") == "known" and f.get("property") == self.pid]

    def finish(self):
        if self.child:
            raise RuntimeError("finish() in child")
        known = self._known()
        new, seen_known = [], []
        for mech, v in sorted(self.violations.items()):
            hit = next((f for f in known if fnmatch.fnmatchcase(mech, f["mech"])), None)
            (seen_known if hit else new).append((mech, v, hit))
        for name, minimum in self.requirements.items():
            if self.counters.get(name, 0) < minimum:
                self.set_inconclusive(f"reach requirement not met: {name}={self.counters.get(name, 0)} < {minimum}")
        if self.evaluations == 0:
            self.set_inconclusive("no oracle evaluation was performed")
        replay_paths = []
        rdir = os.path.join(os.environ.get("VERIF_REPLAY_DIR") or os.path.join(ROOT, "replays" if REPO == "/repo" else ".scratch/replays"), self.pid)
        if os.path.isdir(rdir):   # witnesses of earlier runs of this check are stale
            for fn in os.listdir(rdir):
                if fn.endswith(".json"):
                    os.unlink(os.path.join(rdir, fn))
        for mech, v, _ in new:
            d = os.path.join(os.environ.get("VERIF_REPLAY_DIR") or os.path.join(ROOT, "replays" if REPO == "/repo" else ".scratch/replays"), self.pid)
            os.makedirs(d, exist_ok=True)
            h = hashlib.sha1(mech.encode()).hexdigest()[:16]
            path = os.path.join(d, h + ".json")
            with open(path, "w") as fh:
                json.dump(dict(property=self.pid, mechanism=mech, what=v["what"], count=v["count"], tier=self.tier,
                               seed=self.seed, witness=v["witness"], repro=v.get("repro")), fh, indent=1)
            replay_paths.append(path)
        wall = time.time() - self.t0
        verdict = "violated" if new else ("inconclusive" if self.inconclusive else "held")
        cov = dict(evaluations=self.evaluations, distinct_nontrivial=len(self.distinct), rule=self.rule,
                   samples=self.samples or [], counters=dict(sorted(self.counters.items())),
                   verdict=verdict,
                   known_findings_observed=[dict(mech=m, count=v["count"], what=v["what"]) for m, v, _ in seen_known],
                   new_violations=[dict(mech=m, count=v["count"], what=v["what"]) for m, v, _ in new],
                   inconclusive_reasons=self.inconclusive, not_exercised_on_this_host=self.notes)
        if self.exhaustive is not None:
            cov["exhaustive"] = self.exhaustive
        try:
            from vlib import reach
            self.merge_reach(reach.result())
            cov["anchored_code_reach"] = reach.summarize(self.pid, REPO, {f: sorted(v) for f, v in getattr(self, "reach", {}).items()})
        except Exception as e:
            cov["anchored_code_reach"] = dict(error=str(e))
        cov.update(jsonable(self.extra))
        ev = dict(property_id=self.pid, tier=self.tier, seed=self.seed, level=self.level, coverage=cov,
                  assumptions=self.assumptions, wall_s=round(wall, 2), violations=len(new))
        self._write_evidence(ev)
        for mech, v, hit in seen_known:
            print(f"KNOWN-FINDING: property={self.pid} {hit.get('what', v['what'])} [mech={mech} observed={v['count']}]")
        for (mech, v, _), path in zip(new, replay_paths):
            print(f"VIOLATION property={self.pid} replay={path}")
            print(f"  mechanism: {mech}\n  what: {v['what']}\n  occurrences: {v['count']}")
        print(f"{self.pid} {self.tier} seed={self.seed}: verdict={verdict} evaluations={self.evaluations} "
              f"distinct={len(self.distinct)} known={len(seen_known)} new={len(new)} wall={wall:.1f}s")
        if new:
            sys.exit(1)
        if self.inconclusive:
            for r in self.inconclusive[:6]:
                print(f"INCONCLUSIVE property={self.pid} {r}")
            if len(self.inconclusive) > 6:
                print(f"INCONCLUSIVE property={self.pid} ... and {len(self.inconclusive) - 6} more reasons (see the evidence file)")
            sys.exit(2)
        sys.exit(0)

    def _write_evidence(self, ev):
        d = os.environ.get("VERIF_EVIDENCE_DIR") or os.path.join(ROOT, "evidence" if REPO == "/repo" else ".scratch/evidence")
        os.makedirs(d, exist_ok=True)
        path = os.path.join(d, f"{self.pid}.json")
        try:
            from vlib import deps
            deps.ensure()
            import jsonschema
            with open("/root/.vp/EVIDENCE.schema.json") as fh:
                schema = json.load(fh)
            errs = list(jsonschema.Draft202012Validator(schema).iter_errors(ev))
            if errs and not (self.violations or self.inconclusive):
                print("evidence does not validate:", errs[0].message[:300], file=sys.stderr)
        except Exception as e:  # validation is best effort; the file is written regardless
            print("evidence validation skipped:", type(e).__name__, e, file=sys.stderr)
        with open(path, "w") as fh:
            json.dump(ev, fh, indent=1, sort_keys=False)
            fh.write("\n")


def main(pid, level, rule, body):
    """standard entry point of a check module: body(run) does the work"""
    run = Run(pid, level, rule)
    try:
        import passlib
        import libpass
        for m in (passlib, libpass):
            if not os.path.realpath(m.__file__).startswith(os.path.realpath(REPO) + os.sep):
                run.set_inconclusive(f"{m.__name__} was imported from {m.__file__}, not from {REPO}")
        run.extra["repo"] = REPO
        try:
            from vlib import reach
            reach.start(pid, REPO)
        except Exception:
            pass
        body(run)
    except SystemExit:
        raise
    except BaseException as e:  # harness failure is never reported as a violation
        traceback.print_exc()
        run.set_inconclusive(f"harness error {type(e).__name__}: {e}")
    run.finish()
