"""Deterministic thread scheduler for pure-python code, built on sys.monitoring LINE events.

Worker threads park on a private semaphore before every statement of the *target files*; a controller releases exactly
one parked thread per step according to a schedule (sequence of thread names).  A released thread that does not reach
its next statement within a grace period is blocked on a real lock (the global backend lock, an import lock): it is
marked blocked, another runnable thread is chosen, and it becomes runnable again once it parks.  Yield points are
statement starts of python code - exactly the places where CPython may switch threads - so no interleaving is
manufactured that the interpreter could not produce.  Replay = the recorded sequence of choices."""
import sys
import threading
import time

mon = sys.monitoring
TOOL = 3


class Scheduler:
    def __init__(self, files, grace=0.06, only_functions=None):
        self.files = set(files)
        self.grace = grace
        self.only = only_functions        # optional set of function names that are preemption points
        self.threads = {}                 # ident -> state
        self.lock = threading.Lock()
        self.active = False
        mon.use_tool_id(TOOL, "verif-sched")
        mon.register_callback(TOOL, mon.events.LINE, self._on_line)

    def close(self):
        mon.set_events(TOOL, 0)
        mon.free_tool_id(TOOL)

    def _on_line(self, code, line):
        if code.co_filename not in self.files:
            return mon.DISABLE
        if not self.active:
            return None
        st = self.threads.get(threading.get_ident())
        if st is None:
            return None
        if self.only is not None and code.co_name not in self.only:
            return None
        st["pos"] = (code.co_name, line)
        st["steps"] += 1
        st["arrived"].release()
        st["go"].acquire()
        return None

    def run(self, make, calls, schedule, names=None, max_steps=200000):
        """make() -> fresh shared object; calls = {thread name: fn(obj)}; schedule = list of names (then round robin);
        returns (results, trace, info)"""
        names = names or sorted(calls)
        obj = make()
        results, sts = {}, {}
        started = threading.Semaphore(0)

        def worker(name):
            st = dict(name=name, go=threading.Semaphore(0), arrived=threading.Semaphore(0), done=False, pos=None, steps=0)
            self.threads[threading.get_ident()] = st
            sts[name] = st
            started.release()
            st["go"].acquire()
            try:
                results[name] = ("ok", calls[name](obj))
            except BaseException as e:
                results[name] = ("exc", type(e).__name__, str(e)[:160])
            st["done"] = True
            st["arrived"].release()

        mon.restart_events()
        mon.set_events(TOOL, mon.events.LINE)
        self.active = True
        ths = [threading.Thread(target=worker, args=(n,), daemon=True) for n in names]
        for t in ths:
            t.start()
        for _ in ths:
            started.acquire()
        # a schedule is a sequence of thread names, or of (name, count) segments
        segs = [list(x) if isinstance(x, tuple) else [x, 1] for x in schedule]
        segs.reverse()

        def next_choice(cand):
            """next scheduled thread that is runnable; segments of threads that are not runnable are dropped whole"""
            while segs:
                name, cnt = segs[-1]
                if name not in cand or cnt <= 0:
                    segs.pop()
                    continue
                segs[-1][1] = cnt - 1
                return name
            return None
        live = list(names)
        blocked = set()
        trace = []
        info = dict(blocked_events=0, switches=0, stuck=False)
        last = None
        steps = 0
        while live and steps < max_steps:
            steps += 1
            cand = [n for n in live if n not in blocked]
            n = None
            n = next_choice(cand)
            if n is None:
                if cand:
                    n = cand[0] if last not in cand else last
                else:
                    # every live thread is blocked on a real lock held by ... nobody we control: wait for any arrival
                    got = None
                    deadline = time.time() + max(5, 20 * self.grace)
                    while time.time() < deadline and got is None:
                        for b in list(blocked):
                            if sts[b]["arrived"].acquire(timeout=0.02):
                                got = b
                                break
                    if got is None:
                        info["stuck"] = True
                        break
                    blocked.discard(got)
                    trace.append((got, sts[got]["pos"]))
                    if sts[got]["done"]:
                        live.remove(got)
                    continue
            st = sts[n]
            st["go"].release()
            if st["arrived"].acquire(timeout=self.grace):
                if n != last:
                    info["switches"] += 1
                last = n
                trace.append((n, st["pos"] if not st["done"] else "done"))
                if st["done"]:
                    live.remove(n)
            else:
                blocked.add(n)
                info["blocked_events"] += 1
                trace.append((n, "BLOCKED-after", st["pos"]))
            # blocked threads that have arrived meanwhile become runnable again
            for b in list(blocked):
                if sts[b]["arrived"].acquire(blocking=False):
                    blocked.discard(b)
                    trace.append((b, sts[b]["pos"] if not sts[b]["done"] else "done"))
                    if sts[b]["done"] and b in live:
                        live.remove(b)
        self.active = False
        # let everything still parked run to completion
        for st in sts.values():
            for _ in range(3):
                st["go"].release()
        for t in ths:
            t.join(3)
        mon.set_events(TOOL, 0)
        self.threads.clear()
        info["steps"] = {n: sts[n]["steps"] for n in names}
        return results, trace, info, obj
