"""SASLprep (RFC 4013 profile of RFC 3454 stringprep) restated from the RFCs over the stdlib tables
(`stringprep`, `unicodedata`).  Returns the prepared string or raises ValueError.  Stored-string mode
(unassigned code points prohibited), which is the mode password hashing uses."""
import stringprep as sp
import unicodedata

_PROHIBITED = (sp.in_table_c12, sp.in_table_c21, sp.in_table_c22, sp.in_table_c3, sp.in_table_c4,
               sp.in_table_c5, sp.in_table_c6, sp.in_table_c7, sp.in_table_c8, sp.in_table_c9)


def saslprep(s, both_tables_to="space"):
    """both_tables_to: RFC 3454 lists U+200B in C.1.2 (map to space) AND in B.1 (map to nothing) and RFC 4013 does not
    order the two mappings; 'space' / 'nothing' selects the reading (callers accept either)"""
    # 2.1 mapping
    out = []
    for ch in s:
        if sp.in_table_c12(ch) and sp.in_table_b1(ch) and both_tables_to == "nothing":
            continue
        if sp.in_table_c12(ch):
            out.append(" ")
        elif sp.in_table_b1(ch):
            continue
        else:
            out.append(ch)
    # 2.2 normalisation
    s = unicodedata.normalize("NFKC", "".join(out))
    # 2.3 prohibited output, 2.5 unassigned
    for ch in s:
        if sp.in_table_a1(ch):
            raise ValueError("unassigned code point")
        for t in _PROHIBITED:
            if t(ch):
                raise ValueError("prohibited code point")
    # 2.4 bidi
    if any(sp.in_table_d1(ch) for ch in s):
        if any(sp.in_table_d2(ch) for ch in s):
            raise ValueError("RandALCat and LCat mixed")
        if not (sp.in_table_d1(s[0]) and sp.in_table_d1(s[-1])):
            raise ValueError("RandALCat string must start and end with RandALCat")
    return s


def selftest():
    # RFC 4013 section 3 examples
    assert saslprep("I­X") == "IX"
    assert saslprep("user") == "user"
    assert saslprep("USER") == "USER"
    assert saslprep("ª") == "a"
    assert saslprep("Ⅸ") == "IX"
    for bad in ("\u0007", "ا1"):
        try:
            saslprep(bad)
        except ValueError:
            pass
        else:
            raise AssertionError(bad)
    return True
