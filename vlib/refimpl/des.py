"""Textbook DES written from the FIPS 46-3 tables (bit lists, no optimisation), plus the crypt(3)
variants (salt = swap of E-box output bits i / i+24, iterated encryption) and the 7->8 byte key expansion.
Shares no code with /repo.  Self-validated by selftest() on published vectors and against OS crypt()."""

IP = [58, 50, 42, 34, 26, 18, 10, 2, 60, 52, 44, 36, 28, 20, 12, 4, 62, 54, 46, 38, 30, 22, 14, 6,
      64, 56, 48, 40, 32, 24, 16, 8, 57, 49, 41, 33, 25, 17, 9, 1, 59, 51, 43, 35, 27, 19, 11, 3,
      61, 53, 45, 37, 29, 21, 13, 5, 63, 55, 47, 39, 31, 23, 15, 7]
FP = [0] * 64
for _i, _v in enumerate(IP):
    FP[_v - 1] = _i + 1
E = [32, 1, 2, 3, 4, 5, 4, 5, 6, 7, 8, 9, 8, 9, 10, 11, 12, 13, 12, 13, 14, 15, 16, 17,
     16, 17, 18, 19, 20, 21, 20, 21, 22, 23, 24, 25, 24, 25, 26, 27, 28, 29, 28, 29, 30, 31, 32, 1]
P = [16, 7, 20, 21, 29, 12, 28, 17, 1, 15, 23, 26, 5, 18, 31, 10,
     2, 8, 24, 14, 32, 27, 3, 9, 19, 13, 30, 6, 22, 11, 4, 25]
PC1 = [57, 49, 41, 33, 25, 17, 9, 1, 58, 50, 42, 34, 26, 18, 10, 2, 59, 51, 43, 35, 27, 19, 11, 3, 60, 52, 44, 36,
       63, 55, 47, 39, 31, 23, 15, 7, 62, 54, 46, 38, 30, 22, 14, 6, 61, 53, 45, 37, 29, 21, 13, 5, 28, 20, 12, 4]
PC2 = [14, 17, 11, 24, 1, 5, 3, 28, 15, 6, 21, 10, 23, 19, 12, 4, 26, 8, 16, 7, 27, 20, 13, 2,
       41, 52, 31, 37, 47, 55, 30, 40, 51, 45, 33, 48, 44, 49, 39, 56, 34, 53, 46, 42, 50, 36, 29, 32]
SHIFTS = [1, 1, 2, 2, 2, 2, 2, 2, 1, 2, 2, 2, 2, 2, 2, 1]
SBOX = [
    [14, 4, 13, 1, 2, 15, 11, 8, 3, 10, 6, 12, 5, 9, 0, 7, 0, 15, 7, 4, 14, 2, 13, 1, 10, 6, 12, 11, 9, 5, 3, 8,
     4, 1, 14, 8, 13, 6, 2, 11, 15, 12, 9, 7, 3, 10, 5, 0, 15, 12, 8, 2, 4, 9, 1, 7, 5, 11, 3, 14, 10, 0, 6, 13],
    [15, 1, 8, 14, 6, 11, 3, 4, 9, 7, 2, 13, 12, 0, 5, 10, 3, 13, 4, 7, 15, 2, 8, 14, 12, 0, 1, 10, 6, 9, 11, 5,
     0, 14, 7, 11, 10, 4, 13, 1, 5, 8, 12, 6, 9, 3, 2, 15, 13, 8, 10, 1, 3, 15, 4, 2, 11, 6, 7, 12, 0, 5, 14, 9],
    [10, 0, 9, 14, 6, 3, 15, 5, 1, 13, 12, 7, 11, 4, 2, 8, 13, 7, 0, 9, 3, 4, 6, 10, 2, 8, 5, 14, 12, 11, 15, 1,
     13, 6, 4, 9, 8, 15, 3, 0, 11, 1, 2, 12, 5, 10, 14, 7, 1, 10, 13, 0, 6, 9, 8, 7, 4, 15, 14, 3, 11, 5, 2, 12],
    [7, 13, 14, 3, 0, 6, 9, 10, 1, 2, 8, 5, 11, 12, 4, 15, 13, 8, 11, 5, 6, 15, 0, 3, 4, 7, 2, 12, 1, 10, 14, 9,
     10, 6, 9, 0, 12, 11, 7, 13, 15, 1, 3, 14, 5, 2, 8, 4, 3, 15, 0, 6, 10, 1, 13, 8, 9, 4, 5, 11, 12, 7, 2, 14],
    [2, 12, 4, 1, 7, 10, 11, 6, 8, 5, 3, 15, 13, 0, 14, 9, 14, 11, 2, 12, 4, 7, 13, 1, 5, 0, 15, 10, 3, 9, 8, 6,
     4, 2, 1, 11, 10, 13, 7, 8, 15, 9, 12, 5, 6, 3, 0, 14, 11, 8, 12, 7, 1, 14, 2, 13, 6, 15, 0, 9, 10, 4, 5, 3],
    [12, 1, 10, 15, 9, 2, 6, 8, 0, 13, 3, 4, 14, 7, 5, 11, 10, 15, 4, 2, 7, 12, 9, 5, 6, 1, 13, 14, 0, 11, 3, 8,
     9, 14, 15, 5, 2, 8, 12, 3, 7, 0, 4, 10, 1, 13, 11, 6, 4, 3, 2, 12, 9, 5, 15, 10, 11, 14, 1, 7, 6, 0, 8, 13],
    [4, 11, 2, 14, 15, 0, 8, 13, 3, 12, 9, 7, 5, 10, 6, 1, 13, 0, 11, 7, 4, 9, 1, 10, 14, 3, 5, 12, 2, 15, 8, 6,
     1, 4, 11, 13, 12, 3, 7, 14, 10, 15, 6, 8, 0, 5, 9, 2, 6, 11, 13, 8, 1, 4, 10, 7, 9, 5, 0, 15, 14, 2, 3, 12],
    [13, 2, 8, 4, 6, 15, 11, 1, 10, 9, 3, 14, 5, 0, 12, 7, 1, 15, 13, 8, 10, 3, 7, 4, 12, 5, 6, 11, 0, 14, 9, 2,
     7, 11, 4, 1, 9, 12, 14, 2, 0, 6, 10, 13, 15, 3, 5, 8, 2, 1, 14, 7, 4, 10, 8, 13, 15, 12, 9, 0, 3, 5, 6, 11],
]


def _bits(value, n):
    return [(value >> (n - 1 - i)) & 1 for i in range(n)]


def _int(bits):
    v = 0
    for b in bits:
        v = (v << 1) | b
    return v


def _perm(bits, table):
    return [bits[t - 1] for t in table]


def subkeys(key64):
    k = _perm(_bits(key64, 64), PC1)
    c, d = k[:28], k[28:]
    out = []
    for s in SHIFTS:
        c, d = c[s:] + c[:s], d[s:] + d[:s]
        out.append(_perm(c + d, PC2))
    return out


def _salted_e(salt):
    """E table after swapping outputs i and i+24 for every set salt bit i (crypt(3) salting)"""
    e = list(E)
    for i in range(24):
        if (salt >> i) & 1:
            e[i], e[i + 24] = e[i + 24], e[i]
    return e


def encrypt_int(key64, block64, salt=0, rounds=1):
    """DES encryption of a 64-bit integer block with a 64-bit key (parity bits ignored),
    repeated `rounds` times, with the crypt(3) salt perturbation of the E box."""
    ks = subkeys(key64)
    e = _salted_e(salt)
    bits = _bits(block64, 64)
    for _ in range(rounds):
        b = _perm(bits, IP)
        l, r = b[:32], b[32:]
        for k in ks:
            x = [a ^ b_ for a, b_ in zip(_perm(r, e), k)]
            s_out = []
            for j in range(8):
                six = x[6 * j:6 * j + 6]
                row = (six[0] << 1) | six[5]
                col = _int(six[1:5])
                s_out += _bits(SBOX[j][16 * row + col], 4)
            f = _perm(s_out, P)
            l, r = r, [a ^ b_ for a, b_ in zip(l, f)]
        bits = _perm(r + l, FP)
    return _int(bits)


def encrypt_block(key, block, salt=0, rounds=1):
    """bytes interface: key of 7 or 8 bytes, block of 8 bytes"""
    if len(key) == 7:
        key = expand_key(key)
    return encrypt_int(int.from_bytes(key, "big"), int.from_bytes(block, "big"), salt, rounds).to_bytes(8, "big")


def expand_key(key7):
    """7 bytes (56 bits) -> 8 bytes, 7 key bits per byte in the high bits, parity bit (lsb) zero"""
    v = int.from_bytes(key7, "big")
    out = 0
    for i in range(8):
        seven = (v >> (49 - 7 * i)) & 0x7F
        out = (out << 8) | (seven << 1)
    return out.to_bytes(8, "big")


def selftest():
    # FIPS 81 / classic worked example, and NBS known-answer vectors
    assert encrypt_int(0x133457799BBCDFF1, 0x0123456789ABCDEF) == 0x85E813540F0AB405
    assert encrypt_int(0x0101010101010101, 0x8000000000000000) == 0x95F8A5E5DD31D900
    assert encrypt_int(0x8001010101010101, 0x0000000000000000) == 0x95A8D72813DAA94D
    assert encrypt_int(0x0123456789ABCDEF, 0x4E6F772069732074) == 0x3FA40E8A984D4815
    assert expand_key(b"\xff" * 7) == b"\xfe" * 8
    return True
