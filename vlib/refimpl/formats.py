"""Independent reference implementations of the hash formats, written from the published
specifications (format pages under /repo/docs/lib, the RFCs, Drepper's SHA-crypt paper, NetBSD's
crypt-sha1, the PHPass / FSHP descriptions) over hashlib / hmac / base64 / struct only.
No code of /repo is imported here.  `ref_hash(name, secret, settings, ctx)` returns the complete hash
string for `name` or None when this reference does not cover the input (recorded by the caller).

Conventions: `secret` is bytes (the encoded password).  `settings` uses the same keys as the hasher's
`using()`: salt (str for text salts, bytes for raw salts), rounds, ident, variant, ...
"""
import base64
import hashlib
import hmac
import struct

from . import des as _des
from .md4 import md4 as _md4
from .saslprep import saslprep as _saslprep

H64 = "./0123456789ABCDEFGHIJKLMNOPQRSTUVWXYZabcdefghijklmnopqrstuvwxyz"
BCRYPT64 = "./ABCDEFGHIJKLMNOPQRSTUVWXYZabcdefghijklmnopqrstuvwxyz0123456789"
STD64 = "ABCDEFGHIJKLMNOPQRSTUVWXYZabcdefghijklmnopqrstuvwxyz0123456789+/"


class NotCovered(Exception):
    pass


# ---------------------------------------------------------------------------- encodings
def to64(v, n):
    """crypt(3) to64: n characters, least significant 6 bits first"""
    out = []
    for _ in range(n):
        out.append(H64[v & 63])
        v >>= 6
    return "".join(out)


def h64_le_bytes(data):
    """hash64 little-endian encoding of a byte string (3 bytes -> 4 chars, lsb first)"""
    out = []
    for i in range(0, len(data), 3):
        chunk = data[i:i + 3]
        v = int.from_bytes(chunk, "little")
        out.append(to64(v, (len(chunk) * 8 + 5) // 6))
    return "".join(out)


def h64_big_int64(v):
    """64-bit integer, lsb padded with 2 zero bits, 11 chars big-endian over the hash64 alphabet"""
    v <<= 2
    return "".join(H64[(v >> (6 * (10 - i))) & 63] for i in range(11))


def h64_decode_int_le(s):
    v = 0
    for i, ch in enumerate(s):
        v |= H64.index(ch) << (6 * i)
    return v


def b64_translate(data, alphabet, pad=False):
    s = base64.b64encode(data).decode("ascii")
    if not pad:
        s = s.rstrip("=")
    return s.translate(str.maketrans(STD64, alphabet))


def ab64(data):
    return base64.b64encode(data).decode("ascii").rstrip("=").replace("+", ".")


def ab64_dec(s):
    s = s.replace(".", "+")
    return base64.b64decode(s + "=" * (-len(s) % 4))


def b64s(data):
    return base64.b64encode(data).decode("ascii").rstrip("=")


# ---------------------------------------------------------------------------- KDFs
def pbkdf2(hname, pw, salt, rounds, dklen):
    """RFC 2898 5.2 written out over stdlib hmac (F / U blocks)"""
    out = b""
    i = 1
    while len(out) < dklen:
        u = hmac.new(pw, salt + struct.pack(">I", i), hname).digest()
        t = int.from_bytes(u, "big")
        for _ in range(rounds - 1):
            u = hmac.new(pw, u, hname).digest()
            t ^= int.from_bytes(u, "big")
        out += t.to_bytes(len(u), "big")
        i += 1
    return out[:dklen]


def pbkdf2_fast(hname, pw, salt, rounds, dklen):
    return hashlib.pbkdf2_hmac(hname, pw, salt, rounds, dklen)


def pbkdf1(hname, pw, salt, rounds, dklen):
    t = hashlib.new(hname, pw + salt).digest()
    for _ in range(rounds - 1):
        t = hashlib.new(hname, t).digest()
    if dklen > len(t):
        raise ValueError("derived key too long")
    return t[:dklen]


# ---------------------------------------------------------------------------- crypt family
def md5_crypt(pw, salt, magic="$1$"):
    salt_b = salt.encode("ascii")
    magic_b = magic.encode("ascii")
    ctx = hashlib.md5(pw + magic_b + salt_b)
    final = hashlib.md5(pw + salt_b + pw).digest()
    pl = len(pw)
    while pl > 0:
        ctx.update(final[:min(16, pl)])
        pl -= 16
    i = len(pw)
    while i:
        ctx.update(b"\x00" if i & 1 else pw[:1])
        i >>= 1
    final = ctx.digest()
    for i in range(1000):
        c = hashlib.md5()
        c.update(pw if i & 1 else final)
        if i % 3:
            c.update(salt_b)
        if i % 7:
            c.update(pw)
        c.update(final if i & 1 else pw)
        final = c.digest()
    f = final
    out = ""
    for a, b, c_ in ((0, 6, 12), (1, 7, 13), (2, 8, 14), (3, 9, 15), (4, 10, 5)):
        out += to64((f[a] << 16) | (f[b] << 8) | f[c_], 4)
    out += to64(f[11], 2)
    return f"{magic}{salt}${out}"


_SHA256_ORDER = ((0, 10, 20), (21, 1, 11), (12, 22, 2), (3, 13, 23), (24, 4, 14), (15, 25, 5), (6, 16, 26),
                 (27, 7, 17), (18, 28, 8), (9, 19, 29))
_SHA512_ORDER = ((0, 21, 42), (22, 43, 1), (44, 2, 23), (3, 24, 45), (25, 46, 4), (47, 5, 26), (6, 27, 48),
                 (28, 49, 7), (50, 8, 29), (9, 30, 51), (31, 52, 10), (53, 11, 32), (12, 33, 54), (34, 55, 13),
                 (56, 14, 35), (15, 36, 57), (37, 58, 16), (59, 17, 38), (18, 39, 60), (40, 61, 19), (62, 20, 41))


def sha_crypt_raw(hname, pw, salt_b, rounds):
    H = lambda d=b"": hashlib.new(hname, d)
    n = len(pw)
    b = H(pw + salt_b + pw).digest()
    a = H(pw + salt_b)
    size = len(b)
    cnt = n
    while cnt > size:
        a.update(b)
        cnt -= size
    a.update(b[:cnt])
    i = n
    while i:
        a.update(b if i & 1 else pw)
        i >>= 1
    a = a.digest()
    dp = H()
    for _ in range(n):
        dp.update(pw)
    dp = dp.digest()
    p = (dp * (n // size + 1))[:n]
    ds = H()
    for _ in range(16 + a[0]):
        ds.update(salt_b)
    ds = ds.digest()
    s = (ds * (len(salt_b) // size + 1))[:len(salt_b)]
    c = a
    for i in range(rounds):
        x = H()
        x.update(p if i & 1 else c)
        if i % 3:
            x.update(s)
        if i % 7:
            x.update(p)
        x.update(c if i & 1 else p)
        c = x.digest()
    return c


def sha_crypt(hname, pw, salt, rounds, implicit_rounds=False):
    c = sha_crypt_raw(hname, pw, salt.encode("ascii"), rounds)
    out = ""
    if hname == "sha256":
        for a, b, d in _SHA256_ORDER:
            out += to64((c[a] << 16) | (c[b] << 8) | c[d], 4)
        out += to64((c[31] << 8) | c[30], 3)
        ident = "$5$"
    else:
        for a, b, d in _SHA512_ORDER:
            out += to64((c[a] << 16) | (c[b] << 8) | c[d], 4)
        out += to64(c[63], 2)
        ident = "$6$"
    if rounds == 5000 and implicit_rounds:
        return f"{ident}{salt}${out}"
    return f"{ident}rounds={rounds}${salt}${out}"


def sha1_crypt(pw, salt, rounds):
    r = hmac.new(pw, f"{salt}$sha1${rounds}".encode("ascii"), "sha1").digest()
    for _ in range(rounds - 1):
        r = hmac.new(pw, r, "sha1").digest()
    out = ""
    for i in range(0, 18, 3):
        out += to64((r[i] << 16) | (r[i + 1] << 8) | r[i + 2], 4)
    out += to64((r[18] << 16) | (r[19] << 8) | r[0], 4)
    return f"$sha1${rounds}${salt}${out}"


def _des_key(pw8):
    """first 8 bytes, 7 low bits each, into the high 7 bits of each key byte"""
    pw8 = (pw8 + b"\x00" * 8)[:8]
    return int.from_bytes(bytes((c & 0x7F) << 1 for c in pw8), "big")


def des_crypt_raw(pw, salt2, rounds=25):
    salt = h64_decode_int_le(salt2)
    return h64_big_int64(_des.encrypt_int(_des_key(pw[:8]), 0, salt=salt, rounds=rounds))


def des_crypt(pw, salt):
    return salt + des_crypt_raw(pw, salt)


def bsdi_crypt(pw, salt, rounds):
    key = _des_key(pw[:8])
    rest = pw[8:]
    while rest:
        enc = _des.encrypt_int(key, key)
        nxt = (rest[:8] + b"\x00" * 8)[:8]
        key = enc ^ int.from_bytes(bytes((c << 1) & 0xFF for c in nxt), "big")
        rest = rest[8:]
    v = _des.encrypt_int(key, 0, salt=h64_decode_int_le(salt), rounds=rounds)
    return "_" + to64(rounds, 4) + salt + h64_big_int64(v)


def bigcrypt(pw, salt):
    pw = pw + b"\x00" * (-len(pw) % 8) if pw else b"\x00" * 8
    out = salt
    s = salt
    for i in range(0, len(pw), 8):
        chk = des_crypt_raw(pw[i:i + 8], s)
        out += chk
        s = chk[:2]
    return out


def crypt16(pw, salt):
    pw = (pw + b"\x00" * 16)[:16]
    return salt + des_crypt_raw(pw[:8], salt, 20) + des_crypt_raw(pw[8:], salt, 5)


def phpass(pw, salt, rounds, ident="$P$"):
    h = hashlib.md5(salt.encode("ascii") + pw).digest()
    for _ in range(1 << rounds):
        h = hashlib.md5(h + pw).digest()
    return ident + H64[rounds] + salt + h64_le_bytes(h)


_FSHP = {0: "sha1", 1: "sha256", 2: "sha384", 3: "sha512"}


def fshp(pw, salt, rounds, variant=1):
    hname = _FSHP[int(variant)]
    size = hashlib.new(hname).digest_size
    # FSHP swaps the roles of password and salt in PBKDF1
    chk = pbkdf1(hname, salt, pw, rounds, size)
    return "{FSHP%d|%d|%d}" % (int(variant), len(salt), rounds) + base64.b64encode(salt + chk).decode("ascii")


# ---------------------------------------------------------------------------- bcrypt
def _bcrypt_raw(pw, ident, rounds, salt):
    import bcrypt as _b
    if ident == "$2$":
        if not pw:
            raise NotCovered("$2$ with empty secret")
        pw = (pw * (72 // len(pw) + 1))[:72]
        eff = "$2a$"
    elif ident in ("$2a$", "$2b$", "$2y$"):
        eff = ident
    else:
        raise NotCovered(ident)
    if b"\x00" in pw:
        raise NotCovered("NUL")
    cfg = f"{eff}{rounds:02d}${salt}".encode("ascii")
    out = _b.hashpw(pw[:72], cfg).decode("ascii")
    assert out.startswith(cfg.decode()), out
    return out[len(cfg):]


def _bcrypt_fix_salt(salt):
    """the 22nd salt character only carries 2 bits; the canonical form clears the 4 padding bits"""
    last = BCRYPT64.index(salt[21]) & 0x30
    return salt[:21] + BCRYPT64[last]


def bcrypt(pw, salt, rounds, ident="$2b$"):
    salt = _bcrypt_fix_salt(salt)
    return f"{ident}{rounds:02d}${salt}" + _bcrypt_raw(pw, ident, rounds, salt)


def bcrypt_sha256(pw, salt, rounds, ident="$2b$", version=2):
    salt = _bcrypt_fix_salt(salt)
    if version == 1:
        key = base64.b64encode(hashlib.sha256(pw).digest())
    else:
        key = base64.b64encode(hmac.new(salt.encode("ascii"), pw, "sha256").digest())
    chk = _bcrypt_raw(key, ident, rounds, salt)
    t = ident.strip("$")
    if version == 1:
        return f"$bcrypt-sha256${t},{rounds}${salt}${chk}"
    return f"$bcrypt-sha256$v={version},t={t},r={rounds}${salt}${chk}"


# ---------------------------------------------------------------------------- pbkdf2 family
def _pb(hname, pw, salt, rounds, dklen, slow):
    return (pbkdf2 if slow else pbkdf2_fast)(hname, pw, salt, rounds, dklen)


def pbkdf2_digest(hname, pw, salt, rounds, slow=False):
    size = hashlib.new(hname).digest_size
    ident = "$pbkdf2$" if hname == "sha1" else f"$pbkdf2-{hname}$"
    return f"{ident}{rounds}${ab64(salt)}${ab64(_pb(hname, pw, salt, rounds, size, slow))}"


def ldap_pbkdf2_digest(hname, pw, salt, rounds, slow=False):
    size = hashlib.new(hname).digest_size
    ident = "{PBKDF2}" if hname == "sha1" else "{PBKDF2-%s}" % hname.upper()
    return f"{ident}{rounds}${ab64(salt)}${ab64(_pb(hname, pw, salt, rounds, size, slow))}"


def cta_pbkdf2_sha1(pw, salt, rounds, slow=False):
    enc = lambda d: base64.b64encode(d, b"-_").decode("ascii")
    return f"$p5k2${rounds:x}${enc(salt)}${enc(_pb('sha1', pw, salt, rounds, 20, slow))}"


def dlitz_pbkdf2_sha1(pw, salt, rounds, slow=False):
    cfg = "$p5k2$$" + salt if rounds == 400 else f"$p5k2${rounds:x}${salt}"
    return cfg + "$" + ab64(_pb("sha1", pw, cfg.encode("ascii"), rounds, 24, slow))


def atlassian_pbkdf2_sha1(pw, salt, slow=False):
    return "{PKCS5S2}" + base64.b64encode(salt + _pb("sha1", pw, salt, 10000, 32, slow)).decode("ascii")


def grub_pbkdf2_sha512(pw, salt, rounds, slow=False):
    return "grub.pbkdf2.sha512.%d.%s.%s" % (rounds, salt.hex().upper(), _pb("sha512", pw, salt, rounds, 64, slow).hex().upper())


def django_pbkdf2(hname, pw, salt, rounds, slow=False):
    size = hashlib.new(hname).digest_size
    return f"pbkdf2_{hname}${rounds}${salt}$" + base64.b64encode(
        _pb(hname, pw, salt.encode("ascii"), rounds, size, slow)).decode("ascii")


def scram(pw, salt, rounds, algs, slow=False):
    try:
        text = pw.decode("utf-8")
    except UnicodeDecodeError:
        raise NotCovered("non-utf8")
    prepped = _saslprep(text).encode("utf-8")
    parts = []
    for alg in sorted(algs):
        hname = alg.replace("-", "")
        size = hashlib.new(hname).digest_size
        parts.append(f"{alg}={ab64(_pb(hname, prepped, salt, rounds, size, slow))}")
    return f"$scram${rounds}${ab64(salt)}${','.join(parts)}"


def scrypt_hash(pw, salt, rounds, block_size=8, parallelism=1, ident="$scrypt$"):
    n = 1 << rounds
    dk = hashlib.scrypt(pw, salt=salt, n=n, r=block_size, p=parallelism, dklen=32,
                        maxmem=256 * n * block_size + 2 ** 22)
    if ident == "$scrypt$":
        return f"$scrypt$ln={rounds},r={block_size},p={parallelism}${b64s(salt)}${b64s(dk)}"
    if ident == "$7$":
        return "$7$" + H64[rounds] + to64(block_size, 5) + to64(parallelism, 5) + salt.decode("ascii") + "$" + h64_le_bytes(dk)
    raise NotCovered(ident)


# ---------------------------------------------------------------------------- windows / databases
def _utf16(pw, enc="utf-16-le"):
    try:
        return pw.decode("utf-8").encode(enc)
    except UnicodeDecodeError:
        raise NotCovered("non-utf8")


def nthash(pw):
    return _md4(_utf16(pw)).hex()


def msdcc(pw, user):
    return _md4(_md4(_utf16(pw)) + user.lower().encode("utf-16-le")).hex()


def msdcc2(pw, user, slow=False):
    u = user.lower().encode("utf-16-le")
    return _pb("sha1", _md4(_md4(_utf16(pw)) + u), u, 10240, 16, slow).hex()


def lmhash(pw, encoding="cp437"):
    try:
        text = pw.decode("utf-8") if isinstance(pw, bytes) else pw
    except UnicodeDecodeError:
        raise NotCovered("non-utf8")
    raw = text.upper().encode(encoding)
    raw = (raw + b"\x00" * 14)[:14]
    magic = b"KGS!@#$%"
    return (_des.encrypt_block(raw[:7], magic) + _des.encrypt_block(raw[7:], magic)).hex()


def mssql2000(pw, salt):
    text = pw.decode("utf-8")
    a = hashlib.sha1(text.encode("utf-16-le") + salt).hexdigest()
    b = hashlib.sha1(text.upper().encode("utf-16-le") + salt).hexdigest()
    return "0x0100" + (salt.hex() + a + b).upper()


def mssql2005(pw, salt):
    return "0x0100" + (salt.hex() + hashlib.sha1(_utf16(pw) + salt).hexdigest()).upper()


def mysql323(pw):
    nr, add, nr2 = 1345345333, 7, 0x12345671
    for c in pw:
        if c in (0x20, 0x09):
            continue
        nr = (nr ^ ((((nr & 63) + add) * c) + (nr << 8))) & 0xFFFFFFFF
        nr2 = (nr2 + ((nr2 << 8) ^ nr)) & 0xFFFFFFFF
        add = (add + c) & 0xFFFFFFFF
    return "%08x%08x" % (nr & 0x7FFFFFFF, nr2 & 0x7FFFFFFF)


def mysql41(pw):
    return "*" + hashlib.sha1(hashlib.sha1(pw).digest()).hexdigest().upper()


def oracle10(pw, user):
    try:
        text = pw.decode("utf-8")
    except UnicodeDecodeError:
        raise NotCovered("non-utf8")
    data = (user + text).upper().encode("utf-16-be")
    data += b"\x00" * (-len(data) % 8)

    def cbc_last(key):
        iv = 0
        for i in range(0, len(data), 8):
            iv = _des.encrypt_int(key, int.from_bytes(data[i:i + 8], "big") ^ iv)
        return iv
    k2 = cbc_last(0x0123456789ABCDEF)
    return "%016X" % cbc_last(k2)


def oracle11(pw, salt):
    return "S:" + hashlib.sha1(pw + bytes.fromhex(salt)).hexdigest().upper() + salt.upper()


def postgres_md5(pw, user):
    return "md5" + hashlib.md5(pw + user.encode("utf-8")).hexdigest()


def htdigest(pw, user, realm, encoding="utf-8"):
    text = pw.decode("utf-8")
    return hashlib.md5(":".join((user, realm, text)).encode(encoding)).hexdigest()


_CISCO7 = "dsfd;kfoA,.iyewrkldJKDHSUBsgvca69834ncxv9873254k;fg87"


def cisco_type7(pw, salt):
    out = "%02d" % salt
    for i, c in enumerate(pw):
        out += "%02X" % (c ^ ord(_CISCO7[(salt + i) % len(_CISCO7)]))
    return out


def cisco_pix(pw, user="", asa=False):
    if len(pw) > (32 if asa else 16):
        raise NotCovered("password too long for format")
    data = pw
    if user and not (asa and len(pw) >= 28):
        u = user.encode("utf-8")
        u4 = (u * 4)[:4] if len(u) < 4 else u[:4]
        data = pw + u4
    pad = 32 if (asa and len(data) > 16) else 16   # 'more than 16' per the ASA 9.6 confirmed vectors (the format page says 'or more')
    data = (data + b"\x00" * pad)[:pad]
    d = hashlib.md5(data).digest()
    return h64_le_bytes(d[0:3] + d[4:7] + d[8:11] + d[12:15])


# ---------------------------------------------------------------------------- dispatcher
def _crypt_os(pw, config):
    import legacycrypt
    try:
        text = pw.decode("utf-8")
    except UnicodeDecodeError:
        raise NotCovered("non-utf8 for os crypt")
    if "\x00" in text:
        raise NotCovered("NUL")
    out = legacycrypt.crypt(text, config)
    if not out or out.startswith("*"):
        raise NotCovered("os crypt refused " + config)
    return out


def os_crypt(pw, config):
    """public: OS crypt() on a config string (second opinion for the crypt family)"""
    return _crypt_os(pw, config)


def ref_hash(name, pw, st, ctx=None, slow=False):
    """complete hash string of format `name` or raise NotCovered"""
    ctx = ctx or {}
    st = dict(st)
    if name.startswith("ldap_") and name[5:] in ("des_crypt", "bsdi_crypt", "md5_crypt", "sha1_crypt", "bcrypt",
                                                  "sha256_crypt", "sha512_crypt"):
        return "{CRYPT}" + ref_hash(name[5:], pw, st, ctx, slow)
    if name == "md5_crypt":
        return md5_crypt(pw, st["salt"])
    if name == "apr_md5_crypt":
        return md5_crypt(pw, st["salt"], "$apr1$")
    if name in ("sha256_crypt", "sha512_crypt"):
        return sha_crypt(name[:6], pw, st["salt"], st.get("rounds", 5000), st.get("implicit_rounds", st.get("rounds", 5000) == 5000))
    if name == "sha1_crypt":
        return sha1_crypt(pw, st["salt"], st["rounds"])
    if name == "des_crypt":
        return des_crypt(pw, st["salt"])
    if name == "bsdi_crypt":
        return bsdi_crypt(pw, st["salt"], st["rounds"])
    if name == "bigcrypt":
        return bigcrypt(pw, st["salt"])
    if name == "crypt16":
        return crypt16(pw, st["salt"])
    if name == "sun_md5_crypt":
        salt, rounds = st["salt"], st.get("rounds", 0)
        cfg = ("$md5,rounds=%d$%s" % (rounds, salt)) if rounds else "$md5$" + salt
        cfg += "$" if st.get("bare_salt") else "$$"
        out = _crypt_os(pw, cfg)
        return out
    if name == "phpass":
        return phpass(pw, st["salt"], st["rounds"], st.get("ident", "$P$"))
    if name == "fshp":
        return fshp(pw, st["salt"], st["rounds"], st.get("variant", 1))
    if name == "bcrypt":
        return bcrypt(pw, st["salt"], st["rounds"], st.get("ident", "$2b$"))
    if name == "bcrypt_sha256":
        return bcrypt_sha256(pw, st["salt"], st["rounds"], st.get("ident", "$2b$"), st.get("version", 2))
    if name in ("pbkdf2_sha1", "pbkdf2_sha256", "pbkdf2_sha512"):
        return pbkdf2_digest(name[7:], pw, st["salt"], st["rounds"], slow)
    if name in ("ldap_pbkdf2_sha1", "ldap_pbkdf2_sha256", "ldap_pbkdf2_sha512"):
        return ldap_pbkdf2_digest(name[12:], pw, st["salt"], st["rounds"], slow)
    if name == "cta_pbkdf2_sha1":
        return cta_pbkdf2_sha1(pw, st["salt"], st["rounds"], slow)
    if name == "dlitz_pbkdf2_sha1":
        return dlitz_pbkdf2_sha1(pw, st["salt"], st["rounds"], slow)
    if name == "atlassian_pbkdf2_sha1":
        return atlassian_pbkdf2_sha1(pw, st["salt"], slow)
    if name == "grub_pbkdf2_sha512":
        return grub_pbkdf2_sha512(pw, st["salt"], st["rounds"], slow)
    if name in ("django_pbkdf2_sha1", "django_pbkdf2_sha256"):
        return django_pbkdf2(name[14:], pw, st["salt"], st["rounds"], slow)
    if name == "django_salted_sha1":
        return "sha1$%s$%s" % (st["salt"], hashlib.sha1(st["salt"].encode("ascii") + pw).hexdigest())
    if name == "django_salted_md5":
        return "md5$%s$%s" % (st["salt"], hashlib.md5(st["salt"].encode("ascii") + pw).hexdigest())
    if name == "django_des_crypt":
        return "crypt$%s$%s" % (st["salt"], des_crypt(pw, st["salt"][:2]))
    if name == "django_bcrypt":
        return "bcrypt$" + bcrypt(pw, st["salt"], st["rounds"], st.get("ident", "$2b$"))
    if name == "django_bcrypt_sha256":
        key = hashlib.sha256(pw).hexdigest().encode("ascii")
        return "bcrypt_sha256$" + bcrypt(key, st["salt"], st["rounds"], st.get("ident", "$2b$"))
    if name == "scram":
        return scram(pw, st["salt"], st["rounds"], st["algs"], slow)
    if name == "scrypt":
        return scrypt_hash(pw, st["salt"], st["rounds"], st.get("block_size", 8), st.get("parallelism", 1), st.get("ident", "$scrypt$"))
    if name == "nthash":
        return nthash(pw)
    if name == "bsd_nthash":
        return "$3$$" + nthash(pw)
    if name == "msdcc":
        return msdcc(pw, ctx["user"])
    if name == "msdcc2":
        return msdcc2(pw, ctx["user"], slow)
    if name == "lmhash":
        return lmhash(pw, ctx.get("encoding") or "cp437")
    if name == "mssql2000":
        return mssql2000(pw, st["salt"])
    if name == "mssql2005":
        return mssql2005(pw, st["salt"])
    if name == "mysql323":
        return mysql323(pw)
    if name == "mysql41":
        return mysql41(pw)
    if name == "oracle10":
        return oracle10(pw, ctx["user"])
    if name == "oracle11":
        return oracle11(pw, st["salt"])
    if name == "postgres_md5":
        return postgres_md5(pw, ctx["user"])
    if name == "htdigest":
        return htdigest(pw, ctx["user"], ctx["realm"], ctx.get("encoding") or "utf-8")
    if name == "cisco_type7":
        return cisco_type7(pw, st["salt"])
    if name == "cisco_pix":
        return cisco_pix(pw, ctx.get("user") or "")
    if name == "cisco_asa":
        return cisco_pix(pw, ctx.get("user") or "", asa=True)
    if name in ("hex_md5", "hex_sha1", "hex_sha256", "hex_sha512"):
        return hashlib.new(name[4:], pw).hexdigest()
    if name == "hex_md4":
        return _md4(pw).hex()
    if name == "ldap_md5":
        return "{MD5}" + base64.b64encode(hashlib.md5(pw).digest()).decode()
    if name == "ldap_sha1":
        return "{SHA}" + base64.b64encode(hashlib.sha1(pw).digest()).decode()
    if name == "ldap_hex_md5":
        return "{MD5}" + hashlib.md5(pw).hexdigest()
    if name == "ldap_hex_sha1":
        return "{SHA}" + hashlib.sha1(pw).hexdigest()
    if name in ("ldap_salted_md5", "ldap_salted_sha1", "ldap_salted_sha256", "ldap_salted_sha512"):
        hname = name[12:]
        tag = {"md5": "{SMD5}", "sha1": "{SSHA}", "sha256": "{SSHA256}", "sha512": "{SSHA512}"}[hname]
        return tag + base64.b64encode(hashlib.new(hname, pw + st["salt"]).digest() + st["salt"]).decode()
    if name in ("plaintext", "ldap_plaintext"):
        return pw.decode(ctx.get("encoding") or "utf-8")
    if name == "roundup_plaintext":
        return "{plaintext}" + pw.decode(ctx.get("encoding") or "utf-8")
    raise NotCovered(name)


def selftest():
    """validate the references on published vectors / against OS crypt before they are trusted"""
    import legacycrypt
    problems = []

    def eq(label, got, want):
        if got != want:
            problems.append(f"{label}: {got!r} != {want!r}")
    pw = b"password"
    for cfg, fn in (("$1$abc$", lambda: md5_crypt(pw, "abc")),
                    ("$5$rounds=1000$abcdefgh$", lambda: sha_crypt("sha256", pw, "abcdefgh", 1000)),
                    ("$6$rounds=1001$abcdefgh$", lambda: sha_crypt("sha512", pw, "abcdefgh", 1001)),
                    ("$6$saltsalt$", lambda: sha_crypt("sha512", pw, "saltsalt", 5000, True)),
                    ("$sha1$100$abc$", lambda: sha1_crypt(pw, "abc", 100)),
                    ("ab", lambda: des_crypt(pw, "ab")),
                    ("_J9..rasm", lambda: bsdi_crypt(pw, "rasm", 725))):
        eq("oscrypt " + cfg, fn(), legacycrypt.crypt("password", cfg))
    eq("bsdi long", bsdi_crypt(b"a very long password indeed", "rasm", 3), legacycrypt.crypt("a very long password indeed", "_1...rasm"))
    # published vectors
    eq("sha256 drepper", sha_crypt("sha256", b"Hello world!", "saltstring", 5000, True),
       "$5$saltstring$5B8vYYiY.CVt1RlTTf8KbXBH3hsxY/GNooZaBBGWEc5")
    eq("sha512 drepper", sha_crypt("sha512", b"Hello world!", "saltstringsaltst", 10000),
       "$6$rounds=10000$saltstringsaltst$OW1/O6BYHV6BcXZu8QVeXbDWra3Oeqh0sbHbbMCVNSnCM/UrjmM0Dp8vOuZeHBy/YTBmSK6H9qs/y3RnOaw5v.")
    eq("phpass", phpass(b"test12345", "IQRaTwmf", 11), "$P$9IQRaTwmfeRo7ud9Fh4E2PdI0S3r.L0")
    eq("phpass doc", phpass(b"password", "ohUJ.1sd", 10), "$P$8ohUJ.1sdFw09/bMaAQPTGDNi2BIUt1")
    eq("bigcrypt", bigcrypt(b"passphrase", "S/"), "S/8NbAAlzbYO66hAa9XZyWy2")
    eq("crypt16", crypt16(b"passphrase", "aa"), "aaX/UmCcBrceQ0kQGGWKTbuE")
    eq("cisco_pix", cisco_pix(b"password"), "NuLKvvWGg.x9HEKO")
    # vectors marked 'confirmed ASA 9.6' in the repository's externally sourced known-answer list
    eq("cisco_asa 16", cisco_pix(b"0123456789abcdef", "", asa=True), ".7nfVBEIEu4KbF/1")
    eq("cisco_asa 16+user", cisco_pix(b"0123456789abcdef", "365", asa=True), "KFBI6cNQauyY6h/G")
    eq("cisco_asa 17", cisco_pix(b"0123456789abcdefq", "", asa=True), "bKshl.EN.X3CVFRQ")
    eq("cisco_asa 16+user4", cisco_pix(b"0123456789abcdef", "user1234", asa=True), "IneB.wc9sfRzLPoh")
    eq("dlitz", dlitz_pbkdf2_sha1(b"password", ".pPqsEwHD7MiECU0", 10000), "$p5k2$2710$.pPqsEwHD7MiECU0$b8TQ5AMQemtlaSgegw5Je.JBE3QQhLbO")
    eq("cta", cta_pbkdf2_sha1(b"password", base64.b64decode("oX9ZZOcNgYoAsYL-8bqxKg==", b"-_"), 10000),
       "$p5k2$2710$oX9ZZOcNgYoAsYL-8bqxKg==$AU2JLf2rNxWoZxWxRCluY0u6h6c=")
    eq("lmhash", lmhash(b"password"), "e52cac67419a9a224a3b108f3fa6cb6d")
    eq("nthash", nthash(b"password"), "8846f7eaee8fb117ad06bdd830b7586c")
    eq("mysql323", mysql323(b"mypass"), "6f8c114b58f2ce9e")
    eq("mysql41", mysql41(b"mypass"), "*6C8989366EAF75BB670AD8EA7A7FC1176A95CEF4")
    eq("postgres", postgres_md5(b"mypass", "postgres"), "md55fba2ea04fd36069d2574ea71c8efe9d")
    eq("oracle10", oracle10(b"tiger", "SCOTT"), "F894844C34402B67")
    eq("pbkdf2 rfc6070", pbkdf2("sha1", b"password", b"salt", 2, 20).hex(), "ea6c014dc72d6f8ccd1ed92ace1d41f0d8de8957")
    eq("pbkdf2 slow==fast", pbkdf2("sha256", b"pw", b"na", 7, 70), pbkdf2_fast("sha256", b"pw", b"na", 7, 70))
    eq("msdcc", msdcc(b"Asdf999", "sevans"), "b1176c2587478785ec1037e5abc916d0")
    eq("msdcc2", msdcc2(b"test1", "test1"), "607bbe89611e37446e736f7856515bf8")
    eq("cisco7", cisco_type7(b"password", 4), "044B0A151C36435C0D")
    return problems
