"""child entry: python -m vlib.shard <pid> <module> <func> <json-args> <outfile>"""
import importlib, json, sys, warnings


def main():
    pid, module, func, args, out = sys.argv[1:6]
    warnings.simplefilter("ignore")
    import logging
    logging.disable(logging.CRITICAL)
    from vlib.run import Run
    run = Run(pid, child=True)
    try:
        from vlib import reach
        from vlib.run import REPO
        reach.start(pid, REPO)
    except Exception:
        pass
    mod = importlib.import_module(module)
    getattr(mod, func)(run, **json.loads(args))
    with open(out + ".tmp", "w") as fh:
        json.dump(run.dump(), fh)
    import os
    os.replace(out + ".tmp", out)


if __name__ == "__main__":
    main()
