"""pytest plugin (-p vlib.ambient_plugin): the repository's own test-suite as a workload, with monitors on.

While the pinned suite runs, every hash made through GenericHandler.hash() / PrefixWrapper.hash() by a *shipped* hasher
class (or a using() variant of one) and every hash made through CryptContext.hash() is handed to online monitors:

  C01  the hash just made is identified by its hasher and verifies the password it was made from
  C07  the hash just made parses and re-renders to the same string
  C04  a hash a context has just produced verifies under that context and does not need an update under the same
       context and category

Observations go to $VERIF_AMBIENT_DIR/<pid>.jsonl (one line per violation) and <pid>.counts.json (events per monitor and
hasher).  Classes defined by the tests themselves (mock hashers, deliberately broken subclasses) are not judged: a class is
judged only if every class of its MRO lives in passlib.* / libpass.* / the standard library.  Calls made while a test has patched
the library (mock.patch of a module attribute of passlib.*) cannot be told apart here; the triage rule in checks/ambient.py
therefore accepts a violation only if it reproduces outside pytest from the recorded inputs."""
import atexit
import json
import os
import sys
import threading

DIR = os.environ.get("VERIF_AMBIENT_DIR")
_local = threading.local()
counts = {}
_lock = threading.Lock()
_viol = []


def _count(key):
    with _lock:
        counts[key] = counts.get(key, 0) + 1


def _shipped(cls):
    for k in getattr(cls, "__mro__", ()):
        m = getattr(k, "__module__", "")
        if not (m.startswith("passlib.") or m.startswith("libpass.") or m in ("passlib", "libpass") or m.split(".")[0] in sys.stdlib_module_names):
            return False
    return True


def _report(prop, mech, what, data):
    rec = dict(property=prop, mech=mech, what=what, test=os.environ.get("PYTEST_CURRENT_TEST", ""), **data)
    with _lock:
        _viol.append(rec)
        if DIR:
            with open(os.path.join(DIR, f"{os.getpid()}.jsonl"), "a") as f:
                f.write(json.dumps(rec, default=repr) + "\n")


def _enc(x):
    if isinstance(x, bytes):
        return dict(bytes=x.hex())
    return x


def _settings_of(cls):
    out = {}
    for k in ("rounds", "salt_size", "ident", "truncate_error", "relaxed", "default_rounds", "min_rounds", "max_rounds"):
        for src in ("default_" + k, k):
            v = cls.__dict__.get(src) if isinstance(cls, type) else None
            if v is not None and isinstance(v, (int, str, bool)):
                out[src] = v
    return out


def _backend_of(cls):
    try:
        return cls.get_backend() if hasattr(cls, "get_backend") else None
    except Exception:
        return None


def _judge_handler(cls, secret, kwds, out, wrapper=None):
    h = wrapper or cls
    name = getattr(h, "name", "?")
    if getattr(h, "is_disabled", False):
        _count(f"skipped-disabled-hasher|{name}")       # such hashers never verify, by contract (property C18)
        return
    ctx_kw = {k: v for k, v in kwds.items() if k in getattr(h, "context_kwds", ())}
    if any(k not in ctx_kw for k in kwds):
        _count(f"skipped-setting-kwds|{name}")      # deprecated hash(secret, **settings) path: the settings are not known to verify
        return
    base = dict(hasher=name, secret=_enc(secret), kwds={k: _enc(v) for k, v in ctx_kw.items()}, hash=out,
                cls=getattr(cls, "__qualname__", str(cls)), settings=_settings_of(cls), backend=_backend_of(cls))
    try:
        ok = h.identify(out)
    except Exception as e:
        ok = "EXC:" + type(e).__name__
    _count(f"C01-identify|{name}")
    if ok is not True:
        _report("C01", f"C01|{name}|ambient|own-hash-not-identified", f"{name}.identify() of the hash it has just made -> {ok!r}", base)
    try:
        ok = h.verify(secret, out, **ctx_kw)
    except Exception as e:
        ok = "EXC:" + type(e).__name__ + ":" + str(e)[:80]
    _count(f"C01-verify|{name}")
    if ok is not True:
        _report("C01", f"C01|{name}|ambient|own-hash-not-verified", f"{name}.verify(password, hash just made from it) -> {ok!r}", base)
    if wrapper is None and hasattr(cls, "from_string") and hasattr(cls, "to_string"):
        try:
            again = cls.from_string(out).to_string()
        except Exception as e:
            again = "EXC:" + type(e).__name__ + ":" + str(e)[:80]
        _count(f"C07-rerender|{name}")
        if again != out:
            _report("C07", f"C07|{name}|ambient|rerender-differs", f"{name}.from_string(h).to_string() = {again!r} for the hash h it has just made", base)


def _install():
    from passlib.utils import handlers as uh
    from passlib import context as pc

    orig_hash = uh.GenericHandler.hash.__func__

    def hash(cls, secret, **kwds):
        out = orig_hash(cls, secret, **kwds)
        if getattr(_local, "busy", False) or not _shipped(cls) or not isinstance(out, str):
            return out
        _local.busy = True
        try:
            _judge_handler(cls, secret, kwds, out)
        finally:
            _local.busy = False
        return out
    uh.GenericHandler.hash = classmethod(hash)

    orig_whash = uh.PrefixWrapper.hash

    def whash(self, secret, **kwds):
        out = orig_whash(self, secret, **kwds)
        if getattr(_local, "busy", False) or not _shipped(getattr(self, "wrapped", None)) or not isinstance(out, str):
            return out
        _local.busy = True
        try:
            _judge_handler(self.wrapped, secret, kwds, out, wrapper=self)
        finally:
            _local.busy = False
        return out
    uh.PrefixWrapper.hash = whash

    orig_chash = pc.CryptContext.hash

    def chash(self, secret, scheme=None, category=None, **kwds):
        outer_busy = getattr(_local, "busy", False)
        _local.busy = True          # the handler-level monitor stays quiet inside a context call (judged here instead)
        try:
            out = orig_chash(self, secret, scheme=scheme, category=category, **kwds)
        finally:
            _local.busy = outer_busy
        if outer_busy or type(self).__module__ not in ("passlib.context",) or not isinstance(out, str):
            return out
        _local.busy = True
        try:
            base = dict(secret=_enc(secret), scheme=scheme, category=category, kwds={k: _enc(v) for k, v in kwds.items()}, hash=out)
            try:
                base["config"] = self.to_dict()
                judged = all(_shipped(self.handler(s)) if not hasattr(self.handler(s), "wrapped") else True for s in self.schemes())
            except Exception:
                judged = False
            if not judged:
                _count("C04-skipped-test-hashers")
                return out
            if any(k not in self.context_kwds for k in kwds):
                _count("C04-skipped-setting-kwds")       # deprecated hash(secret, **settings) path: overrides the policy on purpose
                return out
            try:
                if getattr(self.handler(scheme, category) if scheme else self.handler(category=category), "is_disabled", False):
                    _count("C04-skipped-disabled-default")
                    return out
            except Exception:
                pass
            _count("C04-fresh-hash")
            try:
                ok = self.verify(secret, out, category=category, **kwds)
            except Exception as e:
                ok = "EXC:" + type(e).__name__ + ":" + str(e)[:80]
            if ok is not True:
                _report("C04", "C04|ambient|fresh-hash-not-verified", f"context.verify(password, hash the context has just made) -> {ok!r}", base)
            if scheme is None:
                try:
                    nu = self.needs_update(out, category=category)
                except Exception as e:
                    nu = "EXC:" + type(e).__name__ + ":" + str(e)[:80]
                if nu is not False:
                    _report("C04", "C04|ambient|fresh-hash-needs-update", f"context.needs_update(hash the context has just made, same category) -> {nu!r}", base)
        finally:
            _local.busy = False
        return out
    pc.CryptContext.hash = chash

    orig_vau = pc.CryptContext.verify_and_update

    def vau(self, secret, hash, scheme=None, category=None, **kwds):
        outer_busy = getattr(_local, "busy", False)
        _local.busy = True
        try:
            res = orig_vau(self, secret, hash, scheme=scheme, category=category, **kwds)
        finally:
            _local.busy = outer_busy
        if outer_busy or type(self).__module__ != "passlib.context":
            return res
        _local.busy = True
        try:
            _count("C04-verify_and_update")
            base = dict(secret=_enc(secret), hash=_enc(hash), scheme=scheme, category=category, kwds={k: _enc(v) for k, v in kwds.items()}, result=repr(res))
            try:
                base["config"] = self.to_dict()
                judged = all(_shipped(self.handler(s)) if not hasattr(self.handler(s), "wrapped") else True for s in self.schemes())
            except Exception:
                judged = False
            shape_ok = isinstance(res, tuple) and len(res) == 2 and ((res[0] is False and res[1] is None) or (res[0] is True and (res[1] is None or isinstance(res[1], str))))
            if not shape_ok:
                _report("C04", "C04|ambient|verify_and_update-result-shape", f"verify_and_update returned {res!r}", base)
            elif judged and res[1] is not None and not any(k not in self.context_kwds for k in kwds):
                _count("C04-rehash")
                try:
                    ok = self.verify(secret, res[1], category=category, **kwds)
                    nu = self.needs_update(res[1], category=category)
                    dflt = self.identify(res[1], category=category) == self.default_scheme(category=category)
                except Exception as e:
                    ok = nu = dflt = "EXC:" + type(e).__name__ + ":" + str(e)[:80]
                if ok is not True or nu is not False or dflt is not True:
                    _report("C04", "C04|ambient|rehash-not-final", f"replacement hash from verify_and_update: verifies={ok!r} needs_update={nu!r} from-default-scheme={dflt!r}", base)
        finally:
            _local.busy = False
        return res
    pc.CryptContext.verify_and_update = vau


def _flush():
    if DIR:
        with open(os.path.join(DIR, f"{os.getpid()}.counts.json"), "w") as f:
            json.dump(counts, f)


if DIR:
    _install()
    atexit.register(_flush)


def pytest_sessionfinish(session, exitstatus):
    _flush()
