"""./vcheck --replay <file>: re-execute the recorded witness against /repo's working tree."""
import json, subprocess, sys, os


def main():
    path = sys.argv[1]
    with open(path) as fh:
        w = json.load(fh)
    print("property:", w["property"], "\nmechanism:", w["mechanism"], "\nwhat:", w["what"])
    print("witness:", json.dumps(w.get("witness"), indent=1)[:4000])
    src = w.get("repro")
    if not src:
        print("(no stand-alone reproduction recorded; re-run the check with the same VERIF_SEED/VERIF_TIER:"
              f" VERIF_SEED={w.get('seed')} ./vcheck {w['property']} {w.get('tier')})")
        return 0
    print("---- reproduction ----\n" + src + "\n---- output ----")
    r = subprocess.run([sys.executable, "-c", src], env=os.environ, cwd="/verif")
    return r.returncode


if __name__ == "__main__":
    sys.exit(main())
