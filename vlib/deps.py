"""Offline install of icontract/deal/jsonschema beside the repository's interpreter.

`.deps` is git-ignored; `ensure()` is idempotent and is called by every check."""
import os, subprocess, sys, fcntl

ROOT = os.path.dirname(os.path.dirname(os.path.abspath(__file__)))
DEPS = os.path.join(ROOT, ".deps")
WHEELS = "/opt/veriftools/wheels"
PKGS = ["jsonschema", "icontract", "deal"]


def ensure():
    marker = os.path.join(DEPS, ".installed")
    if not os.path.exists(marker):
        os.makedirs(DEPS, exist_ok=True)
        with open(os.path.join(DEPS, ".lock"), "w") as lk:
            fcntl.flock(lk, fcntl.LOCK_EX)
            if not os.path.exists(marker):
                r = subprocess.run(
                    [sys.executable, "-m", "pip", "install", "--quiet", "--no-index",
                     "--find-links", WHEELS, "--target", DEPS, *PKGS],
                    capture_output=True, text=True)
                if r.returncode == 0:
                    open(marker, "w").write("ok\n")
                else:
                    sys.stderr.write("deps.ensure: offline install failed:\n" + r.stderr[-2000:])
    if DEPS not in sys.path:
        sys.path.append(DEPS)
    return os.path.exists(marker)


if __name__ == "__main__":
    sys.exit(0 if ensure() else 1)
