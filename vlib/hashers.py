"""Enumeration of the hashers under test and seeded generators for passwords, settings and context
keywords, driven by each hasher's *declared* metadata (setting_kwds, rounds limits, salt sizes/alphabets)."""
import warnings

warnings.simplefilter("ignore")

from passlib import registry  # noqa: E402
import passlib.hash  # noqa: E402

ARGON = ("argon2", "django_argon2")
DISABLED = ("unix_disabled", "django_disabled")
PLAIN = ("plaintext", "ldap_plaintext", "roundup_plaintext")
DES_FAMILY = ("des_crypt", "bsdi_crypt", "bigcrypt", "crypt16", "ldap_des_crypt", "ldap_bsdi_crypt", "django_des_crypt")
# formats that have to decode the password (utf-8) because the algorithm is defined on text
TRANSCODING = ("nthash", "bsd_nthash", "msdcc", "msdcc2", "mssql2000", "mssql2005", "oracle10", "scram", "lmhash",
               "htdigest") + PLAIN
CRYPT_FAMILY = ("des_crypt", "bsdi_crypt", "bigcrypt", "crypt16", "md5_crypt", "apr_md5_crypt", "sha1_crypt",
                "sha256_crypt", "sha512_crypt", "sun_md5_crypt", "bcrypt", "bcrypt_sha256", "bsd_nthash", "phpass",
                "scrypt")


def names(include_argon=False):
    out = sorted(registry.list_crypt_handlers())
    if not include_argon:
        out = [n for n in out if n not in ARGON]
    return out


def get(name):
    return getattr(passlib.hash, name)


def base_name(h):
    """name of the innermost wrapped handler"""
    w = getattr(h, "wrapped", None)
    return w.name if w is not None else h.name


_usable = {}


def usable(name):
    """can this hasher hash on this host at all (backend present)?"""
    if name not in _usable:
        h = get(name)
        try:
            hb = getattr(h, "has_backend", None)
            _usable[name] = bool(hb()) if hb else True
        except Exception:
            _usable[name] = False
    return _usable[name]


# ------------------------------------------------------------------------------------ context kwds
USERS = ["u", "Admin", "sc", "usr", "user", "longer.user@example.org", "üser", "MÜLLER", "Åsa", "Юзер", "Łukasz", "十Z", "SCOTT", "a b", "Groß", "STRAẞE", "Meißner", "İstanbul", "ǅemal"]
REALMS = ["r", "realm with blank", "réalm"]


def ctx_for(h, rng, simple=False):
    ck = getattr(h, "context_kwds", ())
    out = {}
    if "user" in ck:
        out["user"] = "user" if simple else rng.choice(USERS)
        if h.name in ("cisco_pix", "cisco_asa") and not simple and rng.random() < 0.3:
            out["user"] = ""
    if "realm" in ck:
        out["realm"] = "r" if simple else rng.choice(REALMS)
    if "encoding" in ck and not simple and rng.random() < 0.3:
        if h.name == "lmhash":
            out["encoding"] = rng.choice(["cp437", "latin-1", "cp850"])
        elif h.name == "htdigest":
            out["encoding"] = rng.choice(["utf-8", "latin-1"])
            if out["encoding"] == "latin-1":
                out["user"] = rng.choice(["u", "Admin", "üser", "MÜLLER"])
                out["realm"] = rng.choice(["r", "réalm"])
    return out


# ------------------------------------------------------------------------------------ settings
def salt_alphabet(h):
    return getattr(h, "salt_chars", None)


def gen_salt(h, rng, size=None, extreme=None):
    """a salt in the form `using(salt=...)` expects; extreme in (None,'first','last') picks alphabet ends"""
    name = base_name(h)
    if name == "cisco_type7":
        return rng.choice([0, 1, 15, 51, 52]) if extreme else rng.randint(0, 52)
    lo = h.min_salt_size
    hi = h.max_salt_size if h.max_salt_size is not None else max(lo, 24)
    if size is None:
        size = rng.choice([lo, hi if hi <= 64 else min(hi, 40), h.default_salt_size, rng.randint(lo, min(hi, 40))])
    if getattr(h, "_salt_is_bytes", False):
        if extreme == "first":
            return bytes([0]) * size
        if extreme == "last":
            return bytes([255]) * size
        return bytes(rng.randrange(256) for _ in range(size))
    chars = h.salt_chars
    if extreme == "first":
        s = chars[0] * size
    elif extreme == "last":
        s = chars[-1] * size
    else:
        s = "".join(rng.choice(chars) for _ in range(size))
    if name in ("bcrypt", "bcrypt_sha256", "django_bcrypt_sha256") and size == 22:
        # only 2 bits of the last character are used; keep the canonical (padding bits clear) form
        b64 = "./ABCDEFGHIJKLMNOPQRSTUVWXYZabcdefghijklmnopqrstuvwxyz0123456789"
        s = s[:21] + b64[b64.index(s[21]) & 0x30]
    return s


def rounds_values(h, tier="quick"):
    """cheap cost values around the interesting boundaries"""
    if "rounds" not in getattr(h, "setting_kwds", ()):
        return [None]
    lo, hi = h.min_rounds, h.max_rounds
    name = base_name(h)
    if h.rounds_cost == "log2":
        if name == "scrypt":
            vals = [1, 2, 3, 5, 8] + ([10, 12] if tier == "thorough" else [])
        elif name == "phpass":
            vals = [7, 8, 9] + ([11, 13] if tier == "thorough" else [])
        else:  # bcrypt family
            vals = [4, 5] + ([6, 7] if tier == "thorough" else [])
        return vals
    base = [lo, lo + 1, lo + 2]
    if name in ("sha256_crypt", "sha512_crypt"):
        base += [1007, 1008, 1009, 1049, 1050, 1051, 4999, 5000, 5001]
        if tier == "thorough":
            base += [1000 + 42 * k + d for k in (1, 2, 5) for d in (-1, 0, 1, 2, 41)] + [8192, 10000]
    elif name == "sun_md5_crypt":
        base = [0, 1, 2, 3, 7, 32, 100] + ([1000, 4095, 4096] if tier == "thorough" else [])
    elif name == "bsdi_crypt":
        base = [1, 3, 5, 25, 63, 65, 4095, 4097] + ([16383, 16385] if tier == "thorough" else [])
    elif name in ("msdcc2",):
        base = [None]
    else:
        base += [41, 42, 43, 63, 64, 65, 100, 255, 256, 257, 1000]
        if tier == "thorough":
            base += [83, 84, 85, 1023, 1024, 1025, 4095, 4096, 5000, 10000]
    out = []
    for v in base:
        if v is None or (v >= lo and (hi is None or v <= hi)):
            if v not in out:
                out.append(v)
    return out


def variants(h):
    """list of dicts of ident/variant/version style settings"""
    name = base_name(h)
    sk = getattr(h, "setting_kwds", ())
    out = [{}]
    if name == "bcrypt":
        out = [{"ident": i} for i in ("2", "2a", "2y", "2b")]
    elif name in ("bcrypt_sha256",):
        out = [{"ident": "2b"}, {"version": 1}, {"version": 1, "ident": "2a"}, {"version": 2}]
    elif name == "django_bcrypt_sha256":
        out = [{}, {"ident": "2a"}]
    elif name == "phpass":
        out = [{"ident": "P"}, {"ident": "H"}]
    elif name == "fshp":
        out = [{"variant": v} for v in (0, 1, 2, 3, "sha256", "sha512")]
    elif name == "scrypt":
        out = [{}, {"ident": "$7$"}, {"block_size": 1}, {"block_size": 2, "parallelism": 3}, {"parallelism": 2}]
    elif name == "scram":
        out = [{}, {"algs": "sha-1,sha-256"}, {"algs": ["sha-1", "md5", "sha-512"]}, {"algs": "sha-1"}]
    elif name == "sun_md5_crypt":
        out = [{}, {"bare_salt": True}]
    assert all(set(v) <= set(sk) | {"version"} or name in ("bcrypt_sha256",) for v in out), (name, out, sk)
    return out


def settings_list(h, rng, tier="quick", n_random=4):
    """a list of setting dicts (salt, rounds, variant...) covering boundaries + a few random ones"""
    sk = getattr(h, "setting_kwds", ())
    if not sk or base_name(h) in DISABLED:
        return [{}]
    out = []
    rvals = rounds_values(h, tier)
    vars_ = variants(h)
    has_salt = "salt" in sk
    lo = getattr(h, "min_salt_size", None)
    hi = getattr(h, "max_salt_size", None)
    sizes = [None]
    if has_salt and base_name(h) != "cisco_type7":
        sizes = sorted({lo, h.default_salt_size, hi if hi is not None and hi <= 64 else max(lo, 20), lo + 1 if (hi is None or lo + 1 <= hi) else lo})
    # boundary sweep: each rounds value once (rotating variants/salt sizes), each salt size with extreme symbols
    k = 0
    for r in rvals:
        st = dict(vars_[k % len(vars_)])
        if r is not None:
            st["rounds"] = r
        if has_salt:
            st["salt"] = gen_salt(h, rng, sizes[k % len(sizes)] if sizes[0] is not None else None)
        out.append(st)
        k += 1
    for v in vars_:
        st = dict(v)
        if rvals[0] is not None:
            st["rounds"] = rvals[k % len(rvals)]
        if has_salt:
            st["salt"] = gen_salt(h, rng, sizes[k % len(sizes)] if sizes[0] is not None else None)
        out.append(st)
        k += 1
    if has_salt:
        for sz in sizes:
            for ex in ("first", "last"):
                st = dict(vars_[k % len(vars_)])
                if rvals[0] is not None:
                    st["rounds"] = rvals[0]
                st["salt"] = gen_salt(h, rng, sz, ex)
                out.append(st)
                k += 1
    for _ in range(n_random):
        st = dict(rng.choice(vars_))
        if rvals[0] is not None:
            st["rounds"] = rng.choice(rvals)
        if has_salt:
            st["salt"] = gen_salt(h, rng)
        out.append(st)
    # scrypt $7$ ident wants an ascii (hash64) salt
    for st in out:
        if base_name(h) == "scrypt" and st.get("ident") == "$7$":
            st["salt"] = "".join(rng.choice("./0123456789ABCabc") for _ in range(len(st["salt"]) or 1)).encode()
    return out


def apply(h, st):
    """customised hasher for a settings dict"""
    if not st:
        return h
    return h.using(**st)


# ------------------------------------------------------------------------------------ passwords
C02_LENGTHS = [0, 1, 7, 8, 9, 15, 16, 17, 55, 56, 63, 64, 65, 72, 73, 95, 96, 97, 127, 128, 129, 255, 256]


def pw_bytes(rng, length, kind="ascii"):
    if kind == "ascii":
        return bytes(rng.randrange(0x21, 0x7F) for _ in range(length))
    if kind == "binary":  # all byte values 1..255 (no NUL), generally not valid UTF-8
        return bytes(rng.randrange(1, 256) for _ in range(length))
    if kind == "high":
        return bytes(rng.randrange(0x80, 0x100) for _ in range(length))
    if kind == "ws":  # printable ascii mixed with blanks and control characters (no NUL)
        return bytes(rng.choice(b" \t\n\r\x0b\x0c\x01\x1f\x7f") if rng.random() < 0.3 else rng.randrange(0x21, 0x7F) for _ in range(length))
    raise ValueError(kind)


def pw_text(rng, nchars, widths=(1, 2, 3, 4)):
    """text made of characters of the given UTF-8 widths"""
    pools = {1: (0x21, 0x7E), 2: (0xA1, 0x7FF), 3: (0x800, 0xFFFD), 4: (0x10000, 0x1FFFF)}
    out = []
    import unicodedata
    while len(out) < nchars:
        w = rng.choice(widths)
        lo, hi = pools[w]
        c = chr(rng.randint(lo, hi))
        if unicodedata.category(c) in ("Cs", "Cn", "Co", "Cc", "Cf", "Zs", "Zl", "Zp", "Mn", "Mc", "Me"):
            continue
        if unicodedata.normalize("NFKC", c) != c:
            continue
        out.append(c)
    return "".join(out)


def pw_latin1_text(rng, nchars):
    """non-ASCII text that every single-byte western code page can encode (differs between utf-8 and latin-1 bytes)"""
    return "".join(rng.choice("éüäößñçÉÜàèêîôû") if rng.random() < 0.6 else rng.choice("abcXYZ019") for _ in range(max(1, nchars)))


def is_utf8(b):
    try:
        b.decode("utf-8")
        return True
    except UnicodeDecodeError:
        return False


# libpass hashers -----------------------------------------------------------------------------
def libpass_hashers(cheap=True):
    from libpass.hashers.sha_crypt import SHA256Hasher, SHA512Hasher
    from libpass.hashers.pbkdf2 import PBKDF2SHA256Handler, PBKDF2SHA512Handler
    from libpass.hashers.bcrypt import BcryptHasher, BcryptSHA256Hasher
    return {
        "sha256_crypt": (SHA256Hasher, dict(rounds=1000)),
        "sha512_crypt": (SHA512Hasher, dict(rounds=1000)),
        "pbkdf2_sha256": (PBKDF2SHA256Handler, dict(rounds=3)),
        "pbkdf2_sha512": (PBKDF2SHA512Handler, dict(rounds=3)),
        "bcrypt": (BcryptHasher, dict(rounds=4)),
        "bcrypt_sha256": (BcryptSHA256Hasher, dict(rounds=4)),
    }
