"""Reach monitor: which statements of the files a property is anchored in were executed by the workload.
sys.monitoring LINE events on the anchored files only; the callback records the line and returns DISABLE, so each
location costs one event.  Reported in the evidence (coverage.anchored_code_reach); it is evidence about the workload,
never an oracle."""
import glob
import json
import os
import sys

TOOL = 5
_seen = set()
_files = {}
_on = False


def anchored_files(pid, repo):
    root = os.path.dirname(os.path.dirname(os.path.abspath(__file__)))
    out = {}
    try:
        with open(os.path.join(root, "properties.jsonl")) as fh:
            for line in fh:
                d = json.loads(line)
                if d["id"] == pid:
                    for pat in d["anchors"]["files"]:
                        for f in glob.glob(os.path.join(repo, pat)):
                            if f.endswith(".py"):
                                out[os.path.realpath(f)] = os.path.relpath(f, repo)
    except Exception:
        pass
    return out


def start(pid, repo):
    global _on
    if _on or not hasattr(sys, "monitoring") or os.environ.get("VERIF_REACH", "1") == "0":
        return
    _files.update(anchored_files(pid, repo))
    if not _files:
        return
    mon = sys.monitoring
    try:
        mon.use_tool_id(TOOL, "verif-reach")
    except ValueError:
        return

    def on_line(code, line):
        f = _files.get(code.co_filename)
        if f is None:
            rf = os.path.realpath(code.co_filename)
            f = _files.get(rf)
            if f is None:
                return mon.DISABLE
        _seen.add((f, line))
        return mon.DISABLE
    mon.register_callback(TOOL, mon.events.LINE, on_line)
    mon.set_events(TOOL, mon.events.LINE)
    _on = True


def result():
    out = {}
    for f, line in _seen:
        out.setdefault(f, set()).add(line)
    return {f: sorted(v) for f, v in out.items()}


def executable_lines(path):
    try:
        with open(path) as fh:
            top = compile(fh.read(), path, "exec")
    except Exception:
        return set()
    lines, stack = set(), [top]
    while stack:
        c = stack.pop()
        for _, _, ln in c.co_lines():
            if ln:
                lines.add(ln)
        for k in c.co_consts:
            if hasattr(k, "co_lines"):
                stack.append(k)
    return lines


def summarize(pid, repo, reached):
    files = anchored_files(pid, repo)
    out = {}
    tot_r = tot_e = 0
    for real, rel in sorted(files.items(), key=lambda kv: kv[1]):
        ex = executable_lines(real)
        r = set(reached.get(rel, [])) & ex if ex else set(reached.get(rel, []))
        out[rel] = dict(statements_reached=len(r), executable_statements=len(ex))
        tot_r += len(r)
        tot_e += len(ex)
    return dict(files=out, total_reached=tot_r, total_executable=tot_e)
