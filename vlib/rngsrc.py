"""Controlled random sources handed to the library through the injection points it exposes itself
(`rng=` parameters, the module-level `rng` objects)."""
import math
import random


class Unsupported(Exception):
    pass


class EnumSource:
    """deterministic source: the i-th draw returns values[i] (0 in discovery mode); records what was asked"""

    def __init__(self, values=None):
        self.values = list(values) if values is not None else None
        self.requests = []

    def _next(self, n):
        i = len(self.requests)
        self.requests.append(n)
        if self.values is None:
            return 0
        v = self.values[i]
        assert 0 <= v < n
        return v

    def getrandbits(self, k):
        return self._next(1 << k)

    def randrange(self, start, stop=None, step=1):
        if stop is None:
            start, stop = 0, start
        if step != 1:
            raise Unsupported("step")
        return start + self._next(stop - start)

    def randint(self, a, b):
        return a + self._next(b - a + 1)

    def choice(self, seq):
        return seq[self._next(len(seq))]

    def __getattr__(self, name):
        raise Unsupported(name)


def enumerate_outputs(fn, bound):
    """run fn(source) for every combination of values of the draws it makes; returns (requests, outputs list)
    or (requests, None) when the space exceeds `bound`"""
    import itertools
    probe = EnumSource()
    fn(probe)
    reqs = list(probe.requests)
    total = math.prod(reqs) if reqs else 1
    if total > bound:
        return reqs, None
    outs = []
    for combo in itertools.product(*[range(n) for n in reqs]):
        src = EnumSource(combo)
        outs.append(fn(src))
        if src.requests != reqs:
            raise Unsupported("draw pattern depends on drawn values")
    return reqs, outs


class RecordingSource(random.Random):
    """seeded Mersenne source that records how many bits of randomness each call asked for"""

    def __init__(self, seed):
        super().__init__(seed)
        self.bits = 0.0
        self.calls = 0

    def getrandbits(self, k):
        self.bits += k
        self.calls += 1
        return super().getrandbits(k)

    def randrange(self, start, stop=None, step=1):
        n = (stop - start) if stop is not None else start
        self.bits += math.log2(max(n, 1))
        self.calls += 1
        b = self.bits
        r = super().randrange(start, stop, step) if stop is not None else super().randrange(start)
        self.bits = b   # randrange may call getrandbits internally: count the request once
        return r

    def randint(self, a, b):
        return self.randrange(a, b + 1)

    def choice(self, seq):
        self.bits += math.log2(max(len(seq), 1))
        self.calls += 1
        b = self.bits
        r = super().choice(seq)
        self.bits = b
        return r


def install(source):
    """replace every module-level `rng` of the library (objects that ARE passlib.utils.rng) by `source`;
    returns an undo function"""
    import sys
    import passlib.utils as U
    orig = U.rng
    touched = []
    for name, mod in list(sys.modules.items()):
        if mod is None or not (name.startswith("passlib") or name.startswith("libpass")):
            continue
        for attr, val in list(vars(mod).items()):
            if val is orig:
                setattr(mod, attr, source)
                touched.append((mod, attr))
            elif isinstance(val, type) and getattr(val, "__dict__", {}).get("rng") is orig:
                setattr(val, "rng", source)
                touched.append((val, "rng"))

    def undo():
        for obj, attr in touched:
            setattr(obj, attr, orig)
    return undo, [f"{getattr(o, '__name__', o)}.{a}" for o, a in touched]
