"""Documented password equivalences per format (the near-miss oracle of C01/C05), restated from the format
documentation.  canon(bname, secret_bytes, ctx, ident) returns a canonical key; two passwords may verify
against the same hash iff their keys are equal.  Returns None when the password is outside the format's domain."""
from vlib.refimpl.saslprep import saslprep

TRUNC = {"des_crypt": 8, "django_des_crypt": 8, "crypt16": 16, "bcrypt": 72, "lmhash": 14}


def canon(bname, s, ctx=None, ident=None):
    ctx = ctx or {}
    # DES family: 7 bits per byte, NUL padding to the block size (a trailing byte whose low 7 bits are 0 equals the padding)
    def pad(b, n):
        return b + b"\x00" * ((-len(b)) % n if len(b) else n)
    if bname in ("des_crypt", "django_des_crypt"):
        return pad(bytes(c & 0x7F for c in s[:8]), 8)
    if bname in ("bsdi_crypt", "bigcrypt"):
        return pad(bytes(c & 0x7F for c in s), 8)
    if bname == "crypt16":
        return pad(bytes(c & 0x7F for c in s[:16]), 16)
    if bname == "bcrypt":
        if ident in ("$2$", "2"):
            return (s * 72)[:72] if s else b""
        return s[:72]
    if bname == "lmhash":
        try:
            text = s.decode("utf-8")
            return text.upper().encode(ctx.get("encoding") or "cp437")[:14]
        except UnicodeError:
            return None
    if bname == "mysql323":
        return bytes(c for c in s if c not in (0x20, 0x09))
    if bname in ("mssql2000", "oracle10"):
        try:
            return s.decode("utf-8").upper().encode("utf-8")
        except UnicodeError:
            return None
    if bname == "scram":
        try:
            return saslprep(s.decode("utf-8")).encode("utf-8")
        except (UnicodeError, ValueError):
            return None
    return s


def equivalent(bname, a, b, ctx=None, ident=None):
    ca, cb = canon(bname, a, ctx, ident), canon(bname, b, ctx, ident)
    if ca is None or cb is None:
        return None
    return ca == cb
