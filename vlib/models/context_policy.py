"""Executable restatement of the documented CryptContext policy (docs/lib/passlib.context.rst):
default-scheme resolution, deprecated list / 'auto', per-category inheritance, and the rounds window
(configured values clipped to the scheme's hard limits).  Works on a structured configuration

  cfg = dict(schemes=[names], default=name|None, deprecated=[names]|'auto'|None,
             opts={scheme: {min_rounds,max_rounds,default_rounds,vary_rounds}}, all={...same keys, wildcard scheme},
             cats={cat: dict(default=..., deprecated=..., opts={scheme: {...}}, all={...})})

and on hard limits passed in by the caller (declared metadata of the hashers), never on passlib code."""
import re

H64 = "./0123456789ABCDEFGHIJKLMNOPQRSTUVWXYZabcdefghijklmnopqrstuvwxyz"


class Invalid(Exception):
    """the configuration is documented as invalid (constructor must raise)"""


def render(cfg, style=0):
    """structured configuration -> CryptContext keyword dict (several equivalent spellings by `style`)"""
    kw = {}
    kw["schemes"] = list(cfg["schemes"]) if style % 2 == 0 else ", ".join(cfg["schemes"])
    if cfg.get("default"):
        kw["default"] = cfg["default"]
    dep = cfg.get("deprecated")
    if dep is not None:
        kw["deprecated"] = (dep if dep == "auto" and style % 3 else [dep] if dep == "auto" else list(dep) if style % 2 == 0 else ",".join(dep))
    for s, o in cfg.get("opts", {}).items():
        for k, v in o.items():
            kw[f"{s}__{k}"] = str(v) if (style % 5 == 1 and not isinstance(v, float)) else v
    for k, v in cfg.get("all", {}).items():
        kw[f"all__{k}"] = v
    for cat, c in cfg.get("cats", {}).items():
        for k, v in c.get("all", {}).items():
            kw[f"{cat}__all__{k}"] = v
        if c.get("default"):
            kw[f"{cat}__context__default" if style % 2 else f"{cat}.context.default"] = c["default"]
        if c.get("deprecated") is not None:
            d = c["deprecated"]
            kw[f"{cat}__context__deprecated"] = [d] if d == "auto" else list(d)
        for s, o in c.get("opts", {}).items():
            for k, v in o.items():
                kw[f"{cat}__{s}__{k}"] = v
    return kw


def _explicit_dep(cfg, cat):
    if cat and cfg.get("cats", {}).get(cat, {}).get("deprecated") is not None:
        return cfg["cats"][cat]["deprecated"]
    return cfg.get("deprecated")


def default_scheme(cfg, cat=None):
    c = cfg.get("cats", {}).get(cat, {}) if cat else {}
    d = c.get("default") or cfg.get("default")
    dep = _explicit_dep(cfg, cat)
    deplist = [] if dep in (None, "auto") else dep
    if d:
        if d in deplist:
            raise Invalid("default scheme deprecated")
        return d
    for s in cfg["schemes"]:
        if s not in deplist:
            return s
    raise Invalid("no non-deprecated scheme")


def deprecated(cfg, scheme, cat=None):
    dep = _explicit_dep(cfg, cat)
    if dep is None:
        return False
    if dep == "auto":
        return scheme != default_scheme(cfg, cat)
    return scheme in dep


def scheme_opts(cfg, scheme, cat=None):
    """options in force for (scheme, category); later wins: all < category/all < scheme < category/scheme
    (the wildcard scheme 'all' supplies values to every scheme that has the option)"""
    o = dict(cfg.get("all", {}))
    if cat:
        o.update(cfg.get("cats", {}).get(cat, {}).get("all", {}))
    o.update(cfg.get("opts", {}).get(scheme, {}))
    if cat:
        o.update(cfg.get("cats", {}).get(cat, {}).get("opts", {}).get(scheme, {}))
    return o


def window(cfg, scheme, cat, limits):
    """(min_desired|None, max_desired|None, default, lo, hi) for hashes the context makes; limits =
    dict(min=hard min, max=hard max|None, default=handler default, cost='linear'|'log2')"""
    o = scheme_opts(cfg, scheme, cat)
    hmin, hmax, hdef = limits["min"], limits["max"], limits["default"]

    def clip_hard(v):
        if v < hmin:
            return hmin
        if hmax is not None and v > hmax:
            return hmax
        return v
    num = lambda v: int(v) if isinstance(v, str) else v
    mn_raw = num(o["min_rounds"]) if "min_rounds" in o else None
    mx_raw = num(o["max_rounds"]) if "max_rounds" in o else None
    d_raw = num(o["default_rounds"]) if "default_rounds" in o else None
    if "rounds" in o:
        r = num(o["rounds"])
        mn_raw = r if mn_raw is None else mn_raw
        mx_raw = r if mx_raw is None else mx_raw
        d_raw = r if d_raw is None else d_raw
    if mn_raw is not None and mx_raw is not None and mx_raw < mn_raw:
        raise Invalid("max below min")
    mn = clip_hard(mn_raw) if mn_raw is not None else None
    mx = clip_hard(mx_raw) if mx_raw is not None else None
    if d_raw is not None:
        if mn_raw and d_raw < mn_raw:
            raise Invalid("default below min")
        if mx_raw and d_raw > mx_raw:
            raise Invalid("default above max")
        d = clip_hard(d_raw)
    else:
        d = hdef

    def clip_desired(v):
        if mn and v < mn:
            return mn
        if mx and v > mx:
            return mx
        return v
    d = clip_desired(d)
    lo = hi = d
    v = o.get("vary_rounds")
    if v:
        if isinstance(v, str):
            if v.endswith("%"):
                v = float(v[:-1]) * 0.01
            else:
                try:
                    v = int(v)
                except ValueError:
                    v = float(v)
        if isinstance(v, float):
            if limits["cost"] == "log2":
                return mn, mx, d, None, None   # log-scale variation is not modelled (window still is)
            v = int(d * v)
        lo, hi = clip_desired(d - v), clip_desired(d + v)
    return mn, mx, d, lo, hi


# ---------------------------------------------------------------------------------- independent cost parsers
_COST = {
    "sha256_crypt": lambda h: int(m.group(1)) if (m := re.match(r"^\$5\$rounds=(\d+)\$", h)) else 5000,
    "sha512_crypt": lambda h: int(m.group(1)) if (m := re.match(r"^\$6\$rounds=(\d+)\$", h)) else 5000,
    "pbkdf2_sha256": lambda h: int(re.match(r"^\$pbkdf2-sha256\$(\d+)\$", h).group(1)),
    "pbkdf2_sha1": lambda h: int(re.match(r"^\$pbkdf2\$(\d+)\$", h).group(1)),
    "sha1_crypt": lambda h: int(re.match(r"^\$sha1\$(\d+)\$", h).group(1)),
    "bcrypt": lambda h: int(re.match(r"^\$2[abxy]?\$(\d\d)\$", h).group(1)),
    "phpass": lambda h: H64.index(h[3]),
    "scram": lambda h: int(re.match(r"^\$scram\$(\d+)\$", h).group(1)),
    "bsdi_crypt": lambda h: sum(H64.index(c) << (6 * i) for i, c in enumerate(h[1:5])),
    "bcrypt_sha256": lambda h: int(m.group(1)) if (m := re.match(r"^\$bcrypt-sha256\$v=2,t=2[ab],r=(\d+)\$", h)) else int(re.match(r"^\$bcrypt-sha256\$2[ab],(\d+)\$", h).group(1)),
    "ldap_pbkdf2_sha256": lambda h: int(re.match(r"^\{PBKDF2-SHA256\}(\d+)\$", h).group(1)),
    "django_pbkdf2_sha256": lambda h: int(h.split("$")[1]),
}


def cost_of(scheme, hash_):
    f = _COST.get(scheme)
    return f(hash_) if f else None


def own_flag(scheme, hash_, opts=None):
    """format-specific 'needs update' flags documented by the formats themselves"""
    if scheme == "bcrypt_sha256":
        version = 2 if hash_.startswith("$bcrypt-sha256$v=2,") else 1
        return version < int((opts or {}).get("version", 2))       # a hash of an older layout than the configured one
    if scheme == "bsdi_crypt":
        return cost_of(scheme, hash_) % 2 == 0
    if scheme == "bcrypt" and hash_.startswith("$2a$") and len(hash_) > 28:
        b64 = "./ABCDEFGHIJKLMNOPQRSTUVWXYZabcdefghijklmnopqrstuvwxyz0123456789"
        return hash_[28] in b64 and b64.index(hash_[28]) & 0x0F != 0       # stray padding bits of the 22nd salt character
    if scheme == "scram":
        algs = {p.split("=")[0] for p in hash_.split("$")[4].split(",")}
        return not {"sha-1", "sha-256", "sha-512"} <= algs
    return False


def needs_update(cfg, scheme, cat, hash_, limits):
    if deprecated(cfg, scheme, cat):
        return True
    c = cost_of(scheme, hash_)
    if c is not None:
        mn, mx, _, _, _ = window(cfg, scheme, cat, limits)
        if mn and c < mn:
            return True
        if mx and c > mx:
            return True
    return own_flag(scheme, hash_, scheme_opts(cfg, scheme, cat))
