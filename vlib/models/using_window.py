"""Executable model of the cost window arithmetic of PasswordHash.using() (docs/lib/passlib.ifc.rst, 'using'):
a child inherits the parent's window, explicit values replace it, values outside the hard limits are refused
(ValueError) or - with relaxed=True - clamped, the default is clipped into the window, the variation range stays
inside the window and the hard limits."""


class Refused(Exception):
    """the model says using() must raise ValueError"""


def parse_num(v):
    return int(v) if isinstance(v, str) else v


def parse_vary(v):
    if isinstance(v, str):
        if v.endswith("%"):
            return float(v[:-1]) * 0.01
        if "." in v:
            return float(v)
        return int(v)
    return v


def derive(parent, kw, hard):
    """parent: dict(mn, mx, d, vary) (mn/mx may be None); kw: using() keywords; hard: dict(min, max, default, cost)
    -> child state; raises Refused"""
    relaxed = bool(kw.get("relaxed"))
    hmin, hmax = hard["min"], hard["max"]

    def norm(v, what):
        if v < hmin:
            if relaxed:
                return hmin
            raise Refused(f"{what} below hard minimum")
        if hmax is not None and v > hmax:
            if relaxed:
                return hmax
            raise Refused(f"{what} above hard maximum")
        return v
    mn_in = parse_num(kw["min_rounds"]) if kw.get("min_rounds") is not None else None
    mx_in = parse_num(kw["max_rounds"]) if kw.get("max_rounds") is not None else None
    d_in = parse_num(kw["default_rounds"]) if kw.get("default_rounds") is not None else None
    if kw.get("rounds") is not None:
        r = parse_num(kw["rounds"])
        mn_in = r if mn_in is None else mn_in
        mx_in = r if mx_in is None else mx_in
        d_in = r if d_in is None else d_in
    st = dict(parent)
    mn_eff = mn_in if mn_in is not None else parent["mn"]
    if mn_in is not None:
        st["mn"] = norm(mn_in, "min")
    mx_eff = parent["mx"]
    if mx_in is not None:
        if mn_eff and mx_in < mn_eff:
            if mn_in is not None:
                raise Refused("max below explicit min")
            mx_in = mn_eff
        mx_eff = mx_in
        st["mx"] = norm(mx_in, "max")
    if d_in is not None:
        if mn_eff and d_in < mn_eff:
            raise Refused("default below min")
        if mx_eff and d_in > mx_eff:
            raise Refused("default above max")
        st["d"] = norm(d_in, "default")
    if st["d"] is not None:
        if st["mn"] and st["d"] < st["mn"]:
            st["d"] = st["mn"]
        if st["mx"] and st["d"] > st["mx"]:
            st["d"] = st["mx"]
    if kw.get("vary_rounds") is not None:
        v = parse_vary(kw["vary_rounds"])
        if v < 0:
            raise Refused("vary below 0")
        if isinstance(v, float) and v > 1:
            raise Refused("vary above 1")
        st["vary"] = v
    return st


def new_hash_range(st, hard):
    """(lo, hi) of the cost of new hashes, or (None, None) when not modelled (log2 cost with fractional variation)"""
    d = st["d"]
    v = st.get("vary") or 0
    if isinstance(v, float):
        if hard["cost"] == "log2":
            return None, None
        v = int(d * v)

    def clip(x):
        if st["mn"] and x < st["mn"]:
            x = st["mn"]
        if st["mx"] and x > st["mx"]:
            x = st["mx"]
        if x < hard["min"]:
            x = hard["min"]
        if hard["max"] is not None and x > hard["max"]:
            x = hard["max"]
        return x
    return clip(d - v), clip(d + v)


def needs_update(st, cost):
    if st["mn"] and cost < st["mn"]:
        return True
    if st["mx"] and cost > st["mx"]:
        return True
    return False
