"""The repository's own test-suite as a workload with the monitors of vlib/ambient_plugin.py switched on.

suite_under_monitor(run): runs pytest over $VERIF_REPO/tests with the plugin loaded, then reads the plugin's event
counts and recorded violations of the calling check's property.  A recorded violation is accepted only if it
reproduces *here*, outside pytest, from the recorded inputs with the registered hasher / a context rebuilt from the
recorded configuration (the suite patches library internals in places - mocked backends, forced bugs - and a monitor
firing under such a patch is not an observation of the library).  Not-reproduced records are counted and noted."""
import glob
import json
import os
import shutil
import subprocess
import sys
import tempfile

from vlib.run import REPO, ROOT


def _dec(x):
    if isinstance(x, dict) and set(x) == {"bytes"}:
        return bytes.fromhex(x["bytes"])
    return x


def _reproduce(rec):
    """-> (reproduced?, detail)"""
    import warnings
    warnings.simplefilter("ignore")
    from vlib import hashers as H
    prop, mech = rec["property"], rec["mech"]
    secret = _dec(rec.get("secret"))
    kwds = {k: _dec(v) for k, v in (rec.get("kwds") or {}).items()}
    try:
        if prop in ("C01", "C07"):
            h = H.get(rec["hasher"])
            if mech.endswith("own-hash-not-identified"):
                r = h.identify(rec["hash"])
                return r is not True, f"identify -> {r!r}"
            if mech.endswith("own-hash-not-verified"):
                r = h.verify(secret, rec["hash"], **kwds)
                return r is not True, f"verify -> {r!r}"
            if mech.endswith("rerender-differs"):
                r = h.from_string(rec["hash"]).to_string()
                return r != rec["hash"], f"re-rendered {r!r}"
        if prop == "C04":
            from passlib.context import CryptContext
            ctx = CryptContext(**rec["config"])
            if mech.endswith("fresh-hash-not-verified"):
                r = ctx.verify(secret, rec["hash"], category=rec.get("category"), **kwds)
                return r is not True, f"verify -> {r!r}"
            if mech.endswith("fresh-hash-needs-update"):
                # a fresh hash of the rebuilt context, same inputs (costs may be randomised inside the window: several draws)
                bad = [hs for hs in (ctx.hash(secret, category=rec.get("category"), **kwds) for _ in range(20)) if ctx.needs_update(hs, category=rec.get("category"))]
                return bool(bad), f"{len(bad)}/20 fresh hashes need an update"
            if mech.endswith("rehash-not-final"):
                bad = 0
                for _ in range(10):
                    ok, new = ctx.verify_and_update(secret, _dec(rec["hash"]), category=rec.get("category"), **kwds)
                    if new is not None and (not ctx.verify(secret, new, category=rec.get("category"), **kwds) or ctx.needs_update(new, category=rec.get("category"))):
                        bad += 1
                return bool(bad), f"{bad}/10 replacement hashes not final"
            return True, "result shape is independent of patches"
    except Exception as e:
        return True, f"reproduction raised {type(e).__name__}: {str(e)[:100]}"
    return True, "no reproduction rule"


def suite_under_monitor(run, workers=8, min_events=None):
    d = tempfile.mkdtemp(prefix="ambient.", dir=os.path.join(ROOT, ".scratch") if os.path.isdir(os.path.join(ROOT, ".scratch")) else None)
    try:
        env = {k: v for k, v in os.environ.items()}
        env["VERIF_AMBIENT_DIR"] = d
        env["PYTHONPATH"] = f"{REPO}:{ROOT}:{os.path.join(ROOT, '.deps')}"
        cmd = [sys.executable, "-m", "pytest", "-q", "-p", "no:cacheprovider", "-p", "vlib.ambient_plugin", "--timeout=900",
               "--continue-on-collection-errors", "-n", str(workers), "tests"]
        try:
            r = subprocess.run(cmd, cwd=REPO, env=env, capture_output=True, text=True, timeout=3000)
        except subprocess.TimeoutExpired:
            run.set_inconclusive("ambient: the test-suite workload did not finish within 3000 s")
            return
        tail = (r.stdout.strip().splitlines() or [""])[-1]
        counts = {}
        for f in glob.glob(os.path.join(d, "*.counts.json")):
            for k, v in json.load(open(f)).items():
                counts[k] = counts.get(k, 0) + v
        recs = [json.loads(l) for f in glob.glob(os.path.join(d, "*.jsonl")) for l in open(f)]
    finally:
        shutil.rmtree(d, ignore_errors=True)
    mine = {k: v for k, v in counts.items() if k.startswith(run.pid + "-")}
    by_mon = {}
    for k, v in mine.items():
        by_mon[k.split("|")[0]] = by_mon.get(k.split("|")[0], 0) + v
    hashers = sorted({k.split("|")[1] for k in mine if "|" in k})
    for k, v in by_mon.items():
        run.count("ambient:" + k, v)
        run.case(("ambient", k), None, n=v)
    run.extra["ambient_suite"] = dict(workload="the repository's own tests (pytest) with online monitors hooked into GenericHandler.hash, PrefixWrapper.hash, CryptContext.hash and verify_and_update",
                                      pytest_summary=tail[:200], monitor_events=by_mon, hashers_observed=hashers,
                                      skipped={k: v for k, v in counts.items() if k.startswith("skipped") or "skipped" in k and k.startswith(run.pid)})
    if min_events:
        for k, n in min_events.items():
            run.require("ambient:" + k, n)
    not_repro = 0
    for rec in recs:
        if rec["property"] != run.pid:
            continue
        ok, detail = _reproduce(rec)
        if ok:
            run.violation(rec["mech"], rec["what"] + f" [observed during {rec.get('test', '?')}; outside pytest: {detail}]", {k: v for k, v in rec.items() if k not in ("what",)})
        else:
            not_repro += 1
    if not_repro:
        run.count("ambient:not-reproduced-outside-pytest", not_repro)
        run.note(f"ambient: {not_repro} monitor firings inside the test-suite did not reproduce outside pytest from the recorded inputs (library internals patched by the test); not judged")
